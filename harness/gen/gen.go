// Package gen holds the pure generators (pattern pools, request paths, subsets).
package gen

import (
	"strconv"
	"strings"

	"verifharness/ref"
)

// Patterns generates all paths of depth 1..maxDepth over the segment templates. In a
// template "{}" is a named parameter and "*{}" a catch-all; names are derived from the depth so
// that wildcards of the same kind at the same position never conflict. With slashVariants every
// pattern also appears with a trailing slash. Invalid patterns (per the reference grammar) are dropped.
func Patterns(segs []string, maxDepth int, slashVariants bool, prefix string) []string {
	var out []string
	var rec func(depth int, cur string)
	rec = func(depth int, cur string) {
		if depth > 0 {
			out = append(out, cur)
			if slashVariants {
				out = append(out, cur+"/")
			}
		}
		if depth == maxDepth {
			return
		}
		for _, s := range segs {
			seg := strings.Replace(s, "*{}", "*{c"+strconv.Itoa(depth)+"}", 1)
			seg = strings.Replace(seg, "{}", "{p"+strconv.Itoa(depth)+"}", 1)
			rec(depth+1, cur+"/"+seg)
		}
	}
	rec(0, prefix)
	var valid []string
	seen := map[string]bool{}
	for _, p := range out {
		if seen[p] {
			continue
		}
		seen[p] = true
		if pp, err := ref.Parse(p, ref.NoLimits); err == nil && pp.Gray == "" {
			valid = append(valid, p)
		}
	}
	return valid
}

// Paths generates all request paths of depth 1..maxDepth over segs, with and without trailing
// slash, plus "/".
func Paths(segs []string, maxDepth int) []string {
	out := []string{"/"}
	var rec func(depth int, cur string)
	rec = func(depth int, cur string) {
		if depth > 0 {
			out = append(out, cur, cur+"/")
		}
		if depth == maxDepth {
			return
		}
		for _, s := range segs {
			rec(depth+1, cur+"/"+s)
		}
	}
	rec(0, "")
	return out
}

// Subsets calls fn for every subset of {0..n-1} of size 1..k in a fixed canonical order, passing
// a running index (for sharding). fn must not retain idx.
func Subsets(n, k int, fn func(i int, idx []int)) {
	cnt := 0
	idx := make([]int, 0, k)
	var rec func(start int)
	rec = func(start int) {
		if len(idx) > 0 {
			fn(cnt, idx)
			cnt++
		}
		if len(idx) == k {
			return
		}
		for j := start; j < n; j++ {
			idx = append(idx, j)
			rec(j + 1)
			idx = idx[:len(idx)-1]
		}
	}
	rec(0)
}
