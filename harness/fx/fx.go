// Package fx holds small helpers shared by the property drivers: a minimal ResponseWriter,
// request construction without parsing, tagged handlers.
package fx

import (
	"bufio"
	"io"
	"net"
	"net/http"
	"net/url"
	"strconv"
	"time"

	"github.com/tigerwill90/fox"
)

// RW is a minimal recording http.ResponseWriter.
type RW struct {
	H     http.Header
	Code  int
	Body  []byte
	Calls int
}

func NewRW() *RW { return &RW{H: http.Header{}} }

func (w *RW) Header() http.Header { return w.H }
func (w *RW) WriteHeader(c int) {
	w.Calls++
	if w.Code == 0 {
		w.Code = c
	}
}
func (w *RW) Write(b []byte) (int, error) {
	if w.Code == 0 {
		w.Code = 200
	}
	w.Body = append(w.Body, b...)
	return len(b), nil
}
func (w *RW) Reset() {
	for k := range w.H {
		delete(w.H, k)
	}
	w.Code = 0
	w.Body = w.Body[:0]
	w.Calls = 0
}

// Req builds a request the way net/http would present it to a handler (no parsing).
func Req(method, host, path string) *http.Request {
	return &http.Request{Method: method, Host: host, URL: &url.URL{Path: path}, Header: http.Header{}, RemoteAddr: "192.0.2.1:1234", Proto: "HTTP/1.1", ProtoMajor: 1, ProtoMinor: 1}
}

// ReqRaw builds a request whose escaped path differs from the decoded one.
func ReqRaw(method, host, path, rawPath, rawQuery string) *http.Request {
	r := Req(method, host, path)
	r.URL.RawPath = rawPath
	r.URL.RawQuery = rawQuery
	return r
}

// VerHandler returns a handler that reports version v in the response header "V".
func VerHandler(v int) fox.HandlerFunc {
	s := strconv.Itoa(v)
	return func(c fox.Context) {
		c.Writer().Header().Set("V", s)
		c.Writer().WriteHeader(200)
	}
}

// FullRW implements fox.ResponseWriter on top of RW (for Router.Lookup / CloneWith callers).
type FullRW struct {
	*RW
	status  int
	size    int
	written bool
}

func WrapRW(w *RW) *FullRW { return &FullRW{RW: w, status: 200} }

func (w *FullRW) Status() int   { return w.status }
func (w *FullRW) Written() bool { return w.written }
func (w *FullRW) Size() int     { return w.size }
func (w *FullRW) WriteHeader(c int) {
	if !w.written {
		w.written = true
		w.status = c
	}
	w.RW.WriteHeader(c)
}
func (w *FullRW) Write(b []byte) (int, error) {
	w.written = true
	w.size += len(b)
	return w.RW.Write(b)
}
func (w *FullRW) WriteString(s string) (int, error) { return w.Write([]byte(s)) }
func (w *FullRW) ReadFrom(r io.Reader) (int64, error) {
	b, err := io.ReadAll(r)
	n, _ := w.Write(b)
	return int64(n), err
}
func (w *FullRW) FlushError() error                            { return nil }
func (w *FullRW) Hijack() (net.Conn, *bufio.ReadWriter, error) { return nil, nil, http.ErrNotSupported }
func (w *FullRW) Push(string, *http.PushOptions) error         { return http.ErrNotSupported }
func (w *FullRW) SetReadDeadline(time.Time) error              { return http.ErrNotSupported }
func (w *FullRW) SetWriteDeadline(time.Time) error             { return http.ErrNotSupported }
func (w *FullRW) EnableFullDuplex() error                      { return http.ErrNotSupported }

var _ fox.ResponseWriter = (*FullRW)(nil)
