//go:build verif

package fx

import "github.com/tigerwill90/fox"

// RouteVer extracts the version annotation of a route (0 if nil / absent).
func RouteVer(r *fox.Route) int {
	if r == nil {
		return 0
	}
	if v, ok := r.Annotation(fox.VerifRouteID{}).(int); ok {
		return v
	}
	return -1
}

// WithVer annotates a route with a version.
func WithVer(v int) fox.RouteOption { return fox.WithAnnotation(fox.VerifRouteID{}, v) }
