// Package hist is the explicit-state engine for the registration API: an alphabet of mutating
// operations over a small pattern pool, a sequential map model, replay of operation lists on
// fresh routers, observation of every read API, and a level-synchronous parallel BFS that
// deduplicates on (model state, canonical dump of the implementation's tree).
package hist

import (
	"crypto/sha1"
	"encoding/hex"
	"errors"
	"fmt"
	"os"
	"regexp"
	"slices"
	"sort"
	"strings"
	"sync"

	"github.com/tigerwill90/fox"

	"verifharness/fx"
	"verifharness/ref"
)

// Op kinds.
const (
	Handle = iota
	HandleRoute
	Update
	UpdateRoute
	Delete
	Truncate // Method "" = all methods
	nKinds
)

var kindNames = [...]string{"Handle", "HandleRoute", "Update", "UpdateRoute", "Delete", "Truncate"}

// Modes: how the operation is issued.
const (
	Direct    = iota // Router.X (Truncate: not available, skipped)
	TxnCommit        // inside Router.Updates returning nil
	TxnAbort         // inside Router.Txn(true) ... Abort()
	nModes
)

var modeNames = [...]string{"direct", "txn-commit", "txn-abort"}

// Op is one mutating call.
type Op struct {
	Kind    int    `json:"kind"`
	Method  string `json:"m"`
	Pattern string `json:"p"`
	Mode    int    `json:"mode"`
}

func (o Op) String() string {
	return fmt.Sprintf("%s(%s %s)[%s]", kindNames[o.Kind], o.Method, o.Pattern, modeNames[o.Mode])
}

// Key identifies a registered route in the model.
type Key struct{ Method, Pattern string }

// Model is the sequential reference: (method, pattern) -> version (1 or 2).
type Model map[Key]int

func (m Model) Clone() Model {
	c := make(Model, len(m))
	for k, v := range m {
		c[k] = v
	}
	return c
}

func (m Model) String() string {
	ks := make([]string, 0, len(m))
	for k, v := range m {
		ks = append(ks, fmt.Sprintf("%s %s#%d", k.Method, k.Pattern, v))
	}
	sort.Strings(ks)
	return "{" + strings.Join(ks, ", ") + "}"
}

// Outcome is the result of a mutating call in comparable form.
type Outcome struct {
	Err      string   // "", exist, notfound, conflict, invalid, other:...
	Matched  []string // sorted conflict set
	Returned int      // version of the route returned by Delete (0 otherwise)
}

func (o Outcome) String() string {
	s := "ok"
	if o.Err != "" {
		s = o.Err
	}
	if len(o.Matched) > 0 {
		s += " matched=" + strings.Join(o.Matched, ",")
	}
	if o.Returned != 0 {
		s += fmt.Sprintf(" returned#%d", o.Returned)
	}
	return s
}

func sameOutcome(a, b Outcome) bool {
	if a.Err != b.Err || a.Returned != b.Returned || len(a.Matched) != len(b.Matched) {
		return false
	}
	for i := range a.Matched {
		if a.Matched[i] != b.Matched[i] {
			return false
		}
	}
	return true
}

var validMethod = func(m string) bool {
	if m == "" {
		return false
	}
	for i := 0; i < len(m); i++ {
		if m[i] < 'A' || m[i] > 'Z' {
			return false
		}
	}
	return true
}

// lcp returns the length of the longest common prefix.
func lcp(a, b string) int {
	n := 0
	for n < len(a) && n < len(b) && a[n] == b[n] {
		n++
	}
	return n
}

// insideWildcard reports whether position l (a prefix length) of pattern p lies strictly inside a
// wildcard token: after its opening '{' (or '*') and not after its closing '}'.
func insideWildcard(p string, l int) bool {
	open := -1
	for i := 0; i < len(p); i++ {
		switch p[i] {
		case '*':
			if open < 0 {
				open = i
			}
		case '{':
			if open < 0 {
				open = i
			}
		case '}':
			if open >= 0 {
				if l > open && l <= i {
					return true
				}
				open = -1
			}
		}
	}
	return false
}

// ModelApply applies op to the model and returns the expected outcome. Only the effect of the
// single operation is modelled; the mode (commit/abort) is handled by the caller.
func ModelApply(m Model, o Op) (Outcome, Model) {
	k := Key{o.Method, o.Pattern}
	switch o.Kind {
	case Truncate:
		n := m.Clone()
		ms := strings.Split(o.Method, ",")
		for kk := range n {
			for _, m := range ms {
				if o.Method == "" || kk.Method == m {
					delete(n, kk)
				}
			}
		}
		return Outcome{}, n
	}
	_, perr := ref.Parse(o.Pattern, ref.NoLimits)
	switch o.Kind {
	case Handle, HandleRoute:
		if perr != nil || !validMethod(o.Method) {
			return Outcome{Err: "invalid"}, m
		}
		if _, ok := m[k]; ok {
			return Outcome{Err: "exist"}, m
		}
		var matched []string
		for kk := range m {
			if kk.Method != o.Method {
				continue
			}
			l := lcp(kk.Pattern, o.Pattern)
			if l < len(kk.Pattern) && l < len(o.Pattern) && insideWildcard(o.Pattern, l) && insideWildcard(kk.Pattern, l) {
				matched = append(matched, kk.Pattern)
			}
		}
		if len(matched) > 0 {
			sort.Strings(matched)
			return Outcome{Err: "conflict", Matched: matched}, m
		}
		n := m.Clone()
		n[k] = 1
		return Outcome{}, n
	case Update, UpdateRoute:
		if perr != nil || o.Method == "" {
			return Outcome{Err: "invalid"}, m
		}
		v, ok := m[k]
		if !ok {
			return Outcome{Err: "notfound"}, m
		}
		n := m.Clone()
		n[k] = 3 - v
		return Outcome{}, n
	case Delete:
		if perr != nil || o.Method == "" {
			return Outcome{Err: "invalid"}, m
		}
		v, ok := m[k]
		if !ok {
			return Outcome{Err: "notfound"}, m
		}
		n := m.Clone()
		delete(n, k)
		return Outcome{Returned: v}, n
	}
	panic("bad op")
}

func classify(err error) Outcome {
	if err == nil {
		return Outcome{}
	}
	var ce *fox.RouteConflictError
	if errors.As(err, &ce) {
		m := append([]string(nil), ce.Matched...)
		sort.Strings(m)
		o := Outcome{Err: "conflict", Matched: m}
		if !errors.Is(err, fox.ErrRouteConflict) {
			o.Err = "conflict-not-ErrRouteConflict"
		}
		return o
	}
	switch {
	case errors.Is(err, fox.ErrRouteExist):
		return Outcome{Err: "exist"}
	case errors.Is(err, fox.ErrRouteNotFound):
		return Outcome{Err: "notfound"}
	case errors.Is(err, fox.ErrInvalidRoute):
		return Outcome{Err: "invalid"}
	case errors.Is(err, fox.ErrRouteConflict):
		return Outcome{Err: "conflict-untyped"}
	}
	return Outcome{Err: "other:" + err.Error()}
}

// writerAPI is the mutating API shared by *fox.Router and *fox.Txn.
type writerAPI interface {
	Handle(method, pattern string, h fox.HandlerFunc, opts ...fox.RouteOption) (*fox.Route, error)
	HandleRoute(method string, route *fox.Route) error
	Update(method, pattern string, h fox.HandlerFunc, opts ...fox.RouteOption) (*fox.Route, error)
	UpdateRoute(method string, route *fox.Route) error
	Delete(method, pattern string) (*fox.Route, error)
}

// ReadAPI is the read API shared by *fox.Router and *fox.Txn.
type ReadAPI interface {
	Has(method, pattern string) bool
	Route(method, pattern string) *fox.Route
	Reverse(method, host, path string) (*fox.Route, bool)
	Iter() fox.Iter
	Len() int
}

// versionFor returns the version an operation installs given the version currently observed
// through rd (which is what the model tracks).
func versionFor(o Op, rd ReadAPI) int {
	if o.Kind == Update || o.Kind == UpdateRoute {
		cur := fx.RouteVer(rd.Route(o.Method, o.Pattern))
		if cur == 1 || cur == 2 {
			return 3 - cur
		}
	}
	return 1
}

func applyTo(f *fox.Router, w writerAPI, rd ReadAPI, o Op) (out Outcome) {
	v := versionFor(o, rd)
	switch o.Kind {
	case Handle:
		_, err := w.Handle(o.Method, o.Pattern, fx.VerHandler(v), fx.WithVer(v))
		return classify(err)
	case Update:
		_, err := w.Update(o.Method, o.Pattern, fx.VerHandler(v), fx.WithVer(v))
		return classify(err)
	case HandleRoute, UpdateRoute:
		rt, err := f.NewRoute(o.Pattern, fx.VerHandler(v), fx.WithVer(v))
		if err != nil {
			return classify(err)
		}
		if o.Kind == HandleRoute {
			return classify(w.HandleRoute(o.Method, rt))
		}
		return classify(w.UpdateRoute(o.Method, rt))
	case Delete:
		r, err := w.Delete(o.Method, o.Pattern)
		out = classify(err)
		if err == nil {
			out.Returned = fx.RouteVer(r)
		}
		return out
	}
	panic("bad op")
}

// Apply issues op on the router according to its mode. It returns the outcome and, for the
// transaction modes, the observation made inside the transaction after the operation.
func Apply(f *fox.Router, o Op, inTxn func(txn *fox.Txn)) (out Outcome, panicked string) {
	defer func() {
		if p := recover(); p != nil {
			panicked = fmt.Sprint(p)
		}
	}()
	switch o.Mode {
	case Direct:
		if o.Kind == Truncate {
			// not available on the router: issue through a committed transaction
			_ = f.Updates(func(txn *fox.Txn) error { return truncate(txn, o) })
			return Outcome{}, ""
		}
		return applyTo(f, f, f, o), ""
	case TxnCommit:
		var inner Outcome
		_ = f.Updates(func(txn *fox.Txn) error {
			if o.Kind == Truncate {
				inner = classify(truncate(txn, o))
			} else {
				inner = applyTo(f, txn, txn, o)
			}
			if inTxn != nil {
				inTxn(txn)
			}
			return nil // commit even when the operation failed: a failed call must have changed nothing
		})
		return inner, ""
	case TxnAbort:
		var inner Outcome
		txn := f.Txn(true)
		defer txn.Abort()
		if o.Kind == Truncate {
			inner = classify(truncate(txn, o))
		} else {
			inner = applyTo(f, txn, txn, o)
		}
		if inTxn != nil {
			inTxn(txn)
		}
		return inner, ""
	}
	panic("bad mode")
}

// ApplyIn issues op (its Mode is ignored) inside the open write transaction txn of router f.
func ApplyIn(f *fox.Router, txn *fox.Txn, o Op) (out Outcome, panicked string) {
	defer func() {
		if p := recover(); p != nil {
			panicked = fmt.Sprint(p)
		}
	}()
	if o.Kind == Truncate {
		return classify(truncate(txn, o)), ""
	}
	return applyTo(f, txn, txn, o), ""
}

func truncate(txn *fox.Txn, o Op) error {
	if o.Method == "" {
		return txn.Truncate()
	}
	return txn.Truncate(strings.Split(o.Method, ",")...)
}

// Replay applies ops on a fresh router.
func Replay(ops []Op, opts ...fox.GlobalOption) *fox.Router {
	f, err := fox.New(opts...)
	if err != nil {
		panic(err)
	}
	for _, o := range ops {
		Apply(f, o, nil)
	}
	return f
}

// ModelOf computes the model state after ops (aborted operations have no effect).
func ModelOf(ops []Op) Model {
	m := Model{}
	for _, o := range ops {
		_, n := ModelApply(m, o)
		if o.Mode != TxnAbort {
			m = n
		}
	}
	return m
}

// Pool describes the alphabet.
type Pool struct {
	Methods  []string
	Patterns []string
	// Probe only (not in the op alphabet): extra (method, pattern) pairs to read
	BadMethod  string
	BadPattern string
}

// Ops enumerates the operation alphabet.
func (p *Pool) Ops(withBad bool) []Op {
	var out []Op
	methods := p.Methods
	patterns := p.Patterns
	if withBad {
		methods = append(append([]string{}, methods...), p.BadMethod)
		patterns = append(append([]string{}, patterns...), p.BadPattern)
	}
	for mode := 0; mode < nModes; mode++ {
		for kind := 0; kind < Truncate; kind++ {
			for _, m := range methods {
				for _, pt := range patterns {
					if (m == p.BadMethod || pt == p.BadPattern) && mode != Direct {
						continue // malformed input once (directly) is enough
					}
					out = append(out, Op{Kind: kind, Method: m, Pattern: pt, Mode: mode})
				}
			}
		}
		if mode != Direct {
			out = append(out, Op{Kind: Truncate, Mode: mode})
			for _, m := range p.Methods {
				out = append(out, Op{Kind: Truncate, Method: m, Mode: mode})
				// several methods in one call, in both orders, and the same method twice
				for _, m2 := range p.Methods {
					out = append(out, Op{Kind: Truncate, Method: m + "," + m2, Mode: mode})
				}
			}
		}
	}
	return out
}

// Observation of the full read API in canonical text form.
func Observe(rd ReadAPI, p *Pool) string {
	var sb strings.Builder
	fmt.Fprintf(&sb, "len=%d\n", rd.Len())
	it := rd.Iter()
	var ms []string
	for m := range it.Methods() {
		ms = append(ms, m)
	}
	sort.Strings(ms)
	fmt.Fprintf(&sb, "methods=%s\n", strings.Join(ms, ","))
	var all []string
	for m, r := range it.All() {
		all = append(all, fmt.Sprintf("%s %s#%d", m, r.Pattern(), fx.RouteVer(r)))
	}
	sort.Strings(all)
	fmt.Fprintf(&sb, "all=%s\n", strings.Join(all, "; "))
	// differential: a sequence value is re-usable. Ranging over the same value again - after a loop that
	// stopped early, and from inside its own loop body - must report the same set (a difference adds a
	// line no expectation contains)
	for _, sq := range []struct {
		name string
		seq  func(func(string, *fox.Route) bool)
	}{{"All", it.All()}, {"Prefix(/)", it.Prefix(it.Methods(), "/")}} {
		collect := func() []string {
			var out []string
			for m, r := range sq.seq {
				out = append(out, fmt.Sprintf("%s %s#%d", m, r.Pattern(), fx.RouteVer(r)))
			}
			sort.Strings(out)
			return out
		}
		first := collect()
		for stop := 1; stop <= 2 && stop < len(first); stop++ {
			n := 0
			var inner []string
			for range sq.seq {
				if n++; n == stop {
					if stop == 2 {
						inner = collect()
					}
					break
				}
			}
			again := collect()
			if !slices.Equal(first, again) || (inner != nil && !slices.Equal(first, inner)) {
				fmt.Fprintf(&sb, "Iter.%s ranged again after stopping at element %d: %v (nested: %v), first pass %v\n", sq.name, stop, again, inner, first)
			}
		}
		if len(first) >= 2 {
			// the outer loop goes on after a complete nested pass over the same value
			var outer, inner []string
			n := 0
			for m, r := range sq.seq {
				outer = append(outer, fmt.Sprintf("%s %s#%d", m, r.Pattern(), fx.RouteVer(r)))
				if n++; n == 1 {
					inner = collect()
				}
			}
			sort.Strings(outer)
			if !slices.Equal(first, outer) || !slices.Equal(first, inner) {
				fmt.Fprintf(&sb, "Iter.%s with a nested pass over the same value at its first element: outer %v, nested %v, lone pass %v\n", sq.name, outer, inner, first)
			}
		}
	}
	// differential: Routes / Reverse over several methods at once (all pool methods behind a method nobody uses, in
	// both orders) yield exactly what the single-method calls yield, one after the other
	for _, pt := range p.Patterns {
		var single []string
		for _, m := range p.Methods {
			for mm, r := range it.Routes(seq1(m), pt) {
				single = append(single, fmt.Sprintf("%s#%d", mm, fx.RouteVer(r)))
			}
		}
		sort.Strings(single)
		for oi, order := range [][]string{append([]string{"ZZUNUSED"}, p.Methods...), append(reversedStrings(p.Methods), "ZZUNUSED")} {
			var multi []string
			for mm, r := range it.Routes(slices.Values(order), pt) {
				multi = append(multi, fmt.Sprintf("%s#%d", mm, fx.RouteVer(r)))
			}
			sort.Strings(multi)
			if !slices.Equal(single, multi) {
				fmt.Fprintf(&sb, "Iter.Routes(%v, %s) yields %v, the single-method calls yield %v (order %d)\n", order, pt, multi, single, oi)
			}
		}
	}
	for _, m := range p.Methods {
		for _, pt := range p.Patterns {
			has := rd.Has(m, pt)
			v := fx.RouteVer(rd.Route(m, pt))
			n := 0
			rv := 0
			for mm, r := range it.Routes(seq1(m), pt) {
				n++
				if mm == m {
					rv = fx.RouteVer(r)
				}
			}
			if has || v != 0 || n != 0 {
				fmt.Fprintf(&sb, "%s %s: has=%v route#%d routes=%d#%d\n", m, pt, has, v, n, rv)
			}
			// differential: the iterator's Reverse and the reader's own Reverse are two entry points
			// onto the same state and must agree (a disagreement adds a line no expectation contains)
			host, path := instantiate(pt)
			r1, tsr1 := rd.Reverse(m, host, path)
			var r2 *fox.Route
			n2 := 0
			for _, r := range it.Reverse(seq1(m), host, path) {
				r2 = r
				n2++
			}
			if tsr1 && r1 != nil && !r1.IgnoreTrailingSlashEnabled() && !r1.RedirectTrailingSlashEnabled() {
				r1 = nil // Iter.Reverse yields slash-adjusted matches only for routes that act on them
			}
			if r1 != r2 || n2 > 1 {
				fmt.Fprintf(&sb, "%s %s%s: Reverse=%s#%d but Iter.Reverse=%s#%d (%d results)\n", m, host, path, patOf(r1), fx.RouteVer(r1), patOf(r2), fx.RouteVer(r2), n2)
			}
		}
	}
	return sb.String()
}

func reversedStrings(in []string) []string {
	out := make([]string, len(in))
	for i, x := range in {
		out[len(in)-1-i] = x
	}
	return out
}

func patOf(r *fox.Route) string {
	if r == nil {
		return "-"
	}
	return r.Pattern()
}

var wildcardRe = regexp.MustCompile(`\*?\{[^}]*\}`)

// instantiate turns a pattern into a (host, path) request that matches it: every wildcard is
// replaced by "a".
func instantiate(pattern string) (host, path string) {
	s := wildcardRe.ReplaceAllString(pattern, "a")
	i := strings.IndexByte(s, '/')
	if i < 0 {
		return s, "/"
	}
	return s[:i], s[i:]
}

func seq1(m string) func(func(string) bool) {
	return func(y func(string) bool) { y(m) }
}

// ExpectObservation renders what Observe must return for a model state.
func ExpectObservation(m Model, p *Pool) string {
	var sb strings.Builder
	fmt.Fprintf(&sb, "len=%d\n", len(m))
	mset := map[string]bool{}
	var all []string
	for k, v := range m {
		mset[k.Method] = true
		all = append(all, fmt.Sprintf("%s %s#%d", k.Method, k.Pattern, v))
	}
	var ms []string
	for k := range mset {
		ms = append(ms, k)
	}
	sort.Strings(ms)
	sort.Strings(all)
	fmt.Fprintf(&sb, "methods=%s\n", strings.Join(ms, ","))
	fmt.Fprintf(&sb, "all=%s\n", strings.Join(all, "; "))
	for _, me := range p.Methods {
		for _, pt := range p.Patterns {
			if v, ok := m[Key{me, pt}]; ok {
				fmt.Fprintf(&sb, "%s %s: has=true route#%d routes=1#%d\n", me, pt, v, v)
			}
		}
	}
	return sb.String()
}

// PrefixCheck verifies Iter.Prefix for every prefix of every pool pattern against the model.
func PrefixCheck(rd ReadAPI, m Model, p *Pool) string {
	it := rd.Iter()
	seen := map[string]bool{}
	for _, pt := range p.Patterns {
		for l := 0; l <= len(pt); l++ {
			pre := pt[:l]
			if seen[pre] {
				continue
			}
			seen[pre] = true
			for _, me := range p.Methods {
				var got []string
				for _, r := range it.Prefix(seq1(me), pre) {
					got = append(got, r.Pattern())
				}
				sort.Strings(got)
				var want []string
				for k := range m {
					if k.Method == me && strings.HasPrefix(k.Pattern, pre) {
						want = append(want, k.Pattern)
					}
				}
				sort.Strings(want)
				if strings.Join(got, ",") != strings.Join(want, ",") {
					return fmt.Sprintf("Iter.Prefix(%s, %q) = [%s], model says [%s]", me, pre, strings.Join(got, ","), strings.Join(want, ","))
				}
			}
		}
	}
	return ""
}

// ---------------------------------------------------------------------------------------------
// BFS
// ---------------------------------------------------------------------------------------------

// State is one reachable (model, implementation shape) pair with a shortest path.
type State struct {
	Path  []Op
	Model Model
	Shape string
	Depth int
}

// Visit is called for every transition (from, op); it returns a violation (class, msg) or "".
type Visit func(from *State, op Op, f *fox.Router) (class, msg string)

// Graph is the result of a BFS.
type Graph struct {
	States      []*State
	ByModel     map[string][]int // model string -> indices of states
	Transitions int64
	Truncated   bool
}

// Violation found during BFS.
type Violation struct {
	Class string
	Msg   string
	Path  []Op
}

// safeStep turns a panic raised while a transition is executed or observed (inside the
// implementation or the harness) into a violation of class "panic" instead of crashing the worker.
func safeStep(step func(from *State, op Op) (*State, []Violation), st *State, op Op) (nx *State, vs []Violation) {
	defer func() {
		if p := recover(); p != nil {
			full := append(append([]Op{}, st.Path...), op)
			parts := make([]string, len(full))
			for i, o := range full {
				parts[i] = o.String()
			}
			nx = nil
			vs = []Violation{{Class: "panic", Path: full, Msg: fmt.Sprintf("panic while executing or observing %s: %v\n    history: %s", op, p, strings.Join(parts, " ; "))}}
		}
	}()
	return step(st, op)
}

// BFS explores from the empty router. maxLive bounds the number of registered routes of a state
// that is expanded further (0 = unbounded); visit is called for every transition with a router on
// which from.Path has been replayed (op not yet applied) and must apply the op itself through
// Apply and return the outcome check. workers goroutines process a level in parallel.
func BFS(p *Pool, ops []Op, maxLive int, maxStates int, workers int, expired func() bool,
	step func(from *State, op Op) (next *State, viols []Violation)) (*Graph, []Violation) {
	g := &Graph{ByModel: map[string][]int{}}
	root := &State{Model: Model{}, Shape: fox.VerifShape(Replay(nil))}
	seen := map[string]int{key(root): 0}
	g.States = append(g.States, root)
	g.ByModel[root.Model.String()] = []int{0}
	frontier := []int{0}
	var viols []Violation
	for len(frontier) > 0 {
		type res struct {
			next  []*State
			viols []Violation
			n     int64
		}
		results := make([]res, len(frontier))
		var wg sync.WaitGroup
		ch := make(chan int, len(frontier))
		for i := range frontier {
			ch <- i
		}
		close(ch)
		for w := 0; w < workers; w++ {
			wg.Add(1)
			go func() {
				defer wg.Done()
				for i := range ch {
					st := g.States[frontier[i]]
					if maxLive > 0 && len(st.Model) > maxLive {
						continue
					}
					if expired != nil && expired() {
						continue
					}
					var r res
					twin := lastModeKey(st) != ""
					for _, op := range ops {
						if twin && op.Mode == TxnCommit {
							// the twin exists to try every operation right after a committed managed transaction;
							// its direct and aborted forms do that, the committed form is tried from the first state
							continue
						}
						nx, vs := safeStep(step, st, op)
						r.n++
						r.viols = append(r.viols, vs...)
						if nx != nil {
							r.next = append(r.next, nx)
						}
					}
					results[i] = r
				}
			}()
		}
		wg.Wait()
		if expired != nil && expired() {
			g.Truncated = true
		}
		var next []int
		for _, r := range results {
			g.Transitions += r.n
			viols = append(viols, r.viols...)
			for _, s := range r.next {
				k := key(s)
				if _, ok := seen[k]; ok {
					continue
				}
				if maxStates > 0 && len(g.States) >= maxStates {
					g.Truncated = true
					continue
				}
				seen[k] = len(g.States)
				ms := s.Model.String()
				g.ByModel[ms] = append(g.ByModel[ms], len(g.States))
				g.States = append(g.States, s)
				next = append(next, len(g.States)-1)
			}
		}
		if g.Truncated {
			break
		}
		if os.Getenv("VERIF_DEBUG") != "" {
			fmt.Fprintf(os.Stderr, "bfs: level done, states=%d frontier=%d transitions=%d\n", len(g.States), len(next), g.Transitions)
		}
		frontier = next
	}
	return g, viols
}

// key is the deduplication key. The tree's maxParams and depth fields are dropped from the dump:
// they only size the pooled contexts' slices (append grows them on demand) and, being monotone
// over a history, would multiply the state space without changing any observable behaviour
// (allocation behaviour is C16's subject).
func key(s *State) string {
	return shapeKey(s) + lastModeKey(s)
}

// lastModeKey distinguishes a state whose last operation went through a committed managed transaction
// (Router.Updates: a caching transaction) from the same (set, tree dump) reached otherwise. The dump
// cannot show what a transaction leaves behind outside the tree, so both are kept and expanded: every
// operation is also tried right after a committed managed transaction.
func lastModeKey(s *State) string {
	if n := len(s.Path); n > 0 && s.Path[n-1].Mode == TxnCommit {
		return "\nafter-managed-commit"
	}
	return ""
}

func shapeKey(s *State) string {
	if len(s.Shape) == 40 && !strings.Contains(s.Shape, "\n") {
		return s.Model.String() + "\n" + s.Shape // already compacted
	}
	sh := s.Shape
	if i := strings.Index(sh, " maxParams="); i >= 0 {
		if j := strings.IndexByte(sh, '\n'); j > i {
			sh = sh[:i] + sh[j:]
		}
	}
	// states are kept by the million: store a digest of the dump, not the dump
	d := sha1.Sum([]byte(sh))
	s.Shape = hex.EncodeToString(d[:])
	return s.Model.String() + "\n" + s.Shape
}

// ShapeDigest returns the digest used in state keys for the router's current tree.
func ShapeDigest(f *fox.Router) string {
	st := &State{Model: Model{}, Shape: fox.VerifShape(f)}
	shapeKey(st)
	return st.Shape
}
