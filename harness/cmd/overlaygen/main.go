// overlaygen writes a `go build -overlay` file that (1) maps the shim package
// github.com/tigerwill90/fox/verifsync into the fox module as a virtual directory and (2) replaces
// every non-test Go file of the listed fox packages (fox, clientip, internal/{simplelru,netutil,iterutil}) that imports "sync" or "sync/atomic" by a copy
// whose import is the shim, and every channel send/receive/close outside select statements by a call into the shim
// (textual substitution at AST positions; /repo itself is never modified).
package main

import (
	"encoding/json"
	"flag"
	"fmt"
	"go/ast"
	"go/parser"
	"go/token"
	"os"
	"path/filepath"
	"sort"
	"strconv"
	"strings"
)

const shimPath = "github.com/tigerwill90/fox/verifsync"

func main() {
	repo := flag.String("repo", "/repo", "fox checkout")
	shim := flag.String("shim", "/verif/engine/vsync", "directory with the shim sources")
	out := flag.String("out", "", "output directory (overlay.json + rewritten files)")
	extra := flag.String("extra", "", "comma separated dir=file pairs: add <file> into package dir <dir> (relative to repo)")
	flag.Parse()
	if *out == "" {
		fmt.Fprintln(os.Stderr, "overlaygen: -out required")
		os.Exit(2)
	}
	if err := os.MkdirAll(*out, 0o755); err != nil {
		fatal(err)
	}
	replace := map[string]string{}
	// virtual shim package
	shimFiles, _ := filepath.Glob(filepath.Join(*shim, "*.go"))
	if len(shimFiles) == 0 {
		fatal(fmt.Errorf("no shim sources in %s", *shim))
	}
	for _, f := range shimFiles {
		if strings.HasSuffix(f, "_test.go") {
			continue
		}
		replace[filepath.Join(*repo, "verifsync", filepath.Base(f))] = f
	}
	rewritten := 0
	for _, dir := range []string{".", "clientip", "internal/simplelru", "internal/netutil", "internal/iterutil"} {
		files, _ := filepath.Glob(filepath.Join(*repo, dir, "*.go"))
		sort.Strings(files)
		for _, f := range files {
			if strings.HasSuffix(f, "_test.go") {
				continue
			}
			src, err := os.ReadFile(f)
			if err != nil {
				fatal(err)
			}
			fset := token.NewFileSet()
			af, err := parser.ParseFile(fset, f, src, 0)
			if err != nil {
				fatal(fmt.Errorf("parse %s: %w", f, err))
			}
			type edit struct {
				start, end int
				text       string
			}
			var edits []edit
			// channel operations outside select statements become shim calls (scheduling points with
			// blocking semantics); the file then also imports the shim under the name vsChan
			off := func(p token.Pos) int { return fset.Position(p).Offset }
			txt := func(n ast.Node) string { return string(src[off(n.Pos()):off(n.End())]) }
			chanOps := 0
			var walk func(n ast.Node) bool
			walk = func(n ast.Node) bool {
				switch x := n.(type) {
				case *ast.SelectStmt:
					fmt.Fprintf(os.Stderr, "overlaygen: %s: select statement left as it is (not modelled)\n", fset.Position(x.Pos()))
					for _, cl := range x.Body.List {
						if cc, ok := cl.(*ast.CommClause); ok {
							for _, st := range cc.Body {
								ast.Inspect(st, walk)
							}
						}
					}
					return false
				case *ast.SendStmt:
					edits = append(edits, edit{off(x.Pos()), off(x.End()), "vsChan.ChanSend(" + txt(x.Chan) + ", " + txt(x.Value) + ")"})
					chanOps++
					return false
				case *ast.AssignStmt:
					if len(x.Lhs) == 2 && len(x.Rhs) == 1 {
						if u, ok := x.Rhs[0].(*ast.UnaryExpr); ok && u.Op == token.ARROW {
							edits = append(edits, edit{off(u.Pos()), off(u.End()), "vsChan.ChanRecv2(" + txt(u.X) + ")"})
							chanOps++
							return false
						}
					}
				case *ast.UnaryExpr:
					if x.Op == token.ARROW {
						edits = append(edits, edit{off(x.Pos()), off(x.End()), "vsChan.ChanRecv(" + txt(x.X) + ")"})
						chanOps++
						return false
					}
				case *ast.CallExpr:
					if id, ok := x.Fun.(*ast.Ident); ok && id.Name == "close" && len(x.Args) == 1 {
						edits = append(edits, edit{off(x.Pos()), off(x.End()), "vsChan.ChanClose(" + txt(x.Args[0]) + ")"})
						chanOps++
						return false
					}
				}
				return true
			}
			ast.Inspect(af, walk)
			if chanOps > 0 {
				at := off(af.Name.End())
				edits = append(edits, edit{at, at, "\n\nimport vsChan " + strconv.Quote(shimPath) + "\n"})
			}
			for _, im := range af.Imports {
				p, _ := strconv.Unquote(im.Path.Value)
				if p != "sync" && p != "sync/atomic" {
					continue
				}
				name := "sync"
				if p == "sync/atomic" {
					name = "atomic"
				}
				if im.Name != nil {
					name = im.Name.Name
				}
				start := fset.Position(im.Pos()).Offset
				end := fset.Position(im.End()).Offset
				edits = append(edits, edit{start, end, name + " " + strconv.Quote(shimPath)})
			}
			if len(edits) == 0 {
				continue
			}
			sort.Slice(edits, func(i, j int) bool { return edits[i].start > edits[j].start })
			b := src
			for _, e := range edits {
				b = append(append(append([]byte{}, b[:e.start]...), e.text...), b[e.end:]...)
			}
			dst := filepath.Join(*out, strings.ReplaceAll(filepath.Join(dir, filepath.Base(f)), string(filepath.Separator), "__"))
			if err := os.WriteFile(dst, b, 0o644); err != nil {
				fatal(err)
			}
			replace[f] = dst
			rewritten++
		}
	}
	if *extra != "" {
		for _, kv := range strings.Split(*extra, ",") {
			parts := strings.SplitN(kv, "=", 2)
			if len(parts) != 2 {
				fatal(fmt.Errorf("bad -extra entry %q", kv))
			}
			replace[filepath.Join(*repo, parts[0], filepath.Base(parts[1]))] = parts[1]
		}
	}
	js, _ := json.MarshalIndent(map[string]any{"Replace": replace}, "", " ")
	if err := os.WriteFile(filepath.Join(*out, "overlay.json"), js, 0o644); err != nil {
		fatal(err)
	}
	fmt.Printf("overlaygen: %d files rewritten, %d shim files\n", rewritten, len(shimFiles))
	if rewritten == 0 {
		fatal(fmt.Errorf("no file of fox imports sync: instrumentation would be vacuous"))
	}
}

func fatal(err error) {
	fmt.Fprintln(os.Stderr, "overlaygen:", err)
	os.Exit(2)
}
