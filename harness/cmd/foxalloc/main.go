// foxalloc runs the allocation check (C16) against the production build of fox: no build tag, no
// overlay, real sync primitives.
package main

import (
	"verifharness/mc"
	_ "verifharness/props/c16"
)

func main() { mc.Main() }
