// foxcheck runs one property check (see package mc for flags).
package main

import (
	"verifharness/mc"
	_ "verifharness/props/c01"
	_ "verifharness/props/c02"
	_ "verifharness/props/c03"
	_ "verifharness/props/c04"
	_ "verifharness/props/c05"
	_ "verifharness/props/c06"
	_ "verifharness/props/c07"
	_ "verifharness/props/c08"
	_ "verifharness/props/c09"
	_ "verifharness/props/c10"
	_ "verifharness/props/c11"
	_ "verifharness/props/c12"
	_ "verifharness/props/c13"
	_ "verifharness/props/c14"
	_ "verifharness/props/c15"
	_ "verifharness/props/c17"
	_ "verifharness/props/c18"
	_ "verifharness/props/c19"
	_ "verifharness/props/c20"
)

func main() { mc.Main() }
