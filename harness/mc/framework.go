// Package mc is the property-independent part of the checker: sharded execution of check parts,
// result merging, known-findings classification, replay artefacts and evidence files.
package mc

import (
	"crypto/sha1"
	"encoding/hex"
	"encoding/json"
	"flag"
	"fmt"
	"os"
	"os/exec"
	"path/filepath"
	"regexp"
	"runtime"
	"sort"
	"strconv"
	"strings"
	"sync"
	"time"
)

// Violation is one failed case.
type Violation struct {
	Part  string `json:"part"`
	Class string `json:"class"` // short machine-readable class, used by known-findings predicates
	Msg   string `json:"msg"`   // human readable; deterministic for a given case
	Case  any    `json:"case"`  // replayable description of the case (JSON-marshalable)
}

// Result is what a part reports for its shard.
type Result struct {
	Evaluations        int64             `json:"evaluations"`
	DistinctNontrivial int64             `json:"distinct_nontrivial"`
	States             int64             `json:"states"`
	Transitions        int64             `json:"transitions"`
	TracesValidated    int64             `json:"traces_validated"`
	Abstained          int64             `json:"abstained"`
	Outcomes           map[string]int64  `json:"outcomes,omitempty"`
	Counters           map[string]int64  `json:"counters,omitempty"`
	Samples            []any             `json:"samples,omitempty"`
	Violations         []Violation       `json:"violations,omitempty"`
	ViolationCount     int64             `json:"violation_count"`
	NotExhaustive      []string          `json:"not_exhaustive,omitempty"`
	Errors             []string          `json:"errors,omitempty"` // machinery failures (exit 2)
	Bounds             map[string]string `json:"bounds,omitempty"`
	// NontrivialIsOutcomes: distinct_nontrivial of this part is the number of distinct outcomes
	// (computed after merging shards, so that an outcome seen by several shards counts once).
	NontrivialIsOutcomes bool `json:"nontrivial_is_outcomes,omitempty"`
}

const maxOutcomesKept = 4000

func NewResult() *Result {
	return &Result{Outcomes: map[string]int64{}, Counters: map[string]int64{}, Bounds: map[string]string{}}
}

func (r *Result) Outcome(o string) {
	if _, ok := r.Outcomes[o]; ok || len(r.Outcomes) < maxOutcomesKept {
		r.Outcomes[o]++
	} else {
		r.Outcomes["<other>"]++
	}
}

func (r *Result) Count(name string, d int64) { r.Counters[name] += d }

func (r *Result) Sample(v any) {
	if len(r.Samples) < 3 {
		r.Samples = append(r.Samples, v)
	}
}

func (r *Result) Violate(part, class, msg string, c any) {
	r.ViolationCount++
	// keep at most a few per class (so that rare classes are never crowded out), preferring short
	// messages (small witnesses)
	n, longest := 0, -1
	for i, v := range r.Violations {
		if v.Class == class && v.Msg == msg {
			r.Count("violations."+class, 1)
			return
		}
		if v.Class == class {
			n++
			if longest < 0 || len(v.Msg) > len(r.Violations[longest].Msg) {
				longest = i
			}
		}
	}
	v := Violation{Part: part, Class: class, Msg: msg, Case: c}
	if n < 5 {
		r.Violations = append(r.Violations, v)
	} else if len(msg) < len(r.Violations[longest].Msg) {
		r.Violations[longest] = v
	}
	r.Count("violations."+class, 1)
}

func (r *Result) Merge(o *Result) {
	r.Evaluations += o.Evaluations
	r.DistinctNontrivial += o.DistinctNontrivial
	r.States += o.States
	r.Transitions += o.Transitions
	r.TracesValidated += o.TracesValidated
	r.Abstained += o.Abstained
	r.ViolationCount += o.ViolationCount
	for k, v := range o.Outcomes {
		if _, ok := r.Outcomes[k]; ok || len(r.Outcomes) < maxOutcomesKept {
			r.Outcomes[k] += v
		} else {
			r.Outcomes["<other>"] += v
		}
	}
	for k, v := range o.Counters {
		r.Counters[k] += v
	}
	for k, v := range o.Bounds {
		r.Bounds[k] = v
	}
	for _, s := range o.Samples {
		if len(r.Samples) < 5 {
			r.Samples = append(r.Samples, s)
		}
	}
	for _, v := range o.Violations {
		dup := false
		for _, w := range r.Violations {
			if w.Class == v.Class && w.Msg == v.Msg {
				dup = true
				break
			}
		}
		if dup {
			continue
		}
		n, longest := 0, -1
		for i, w := range r.Violations {
			if w.Class == v.Class {
				n++
				if longest < 0 || len(w.Msg) > len(r.Violations[longest].Msg) {
					longest = i
				}
			}
		}
		if n < 8 {
			r.Violations = append(r.Violations, v)
		} else if len(v.Msg) < len(r.Violations[longest].Msg) {
			r.Violations[longest] = v
		}
	}
	r.NotExhaustive = append(r.NotExhaustive, o.NotExhaustive...)
	r.Errors = append(r.Errors, o.Errors...)
	r.NontrivialIsOutcomes = r.NontrivialIsOutcomes || o.NontrivialIsOutcomes
}

// Ctx is handed to every part.
type Ctx struct {
	ID       string
	Tier     string // quick | thorough
	Seed     int64
	Shard    int
	NShards  int
	ticks    int
	Deadline time.Time
	Replay   *Violation // non-nil: replay only this case
}

func (c *Ctx) Quick() bool     { return c.Tier != "thorough" }
func (c *Ctx) Mine(i int) bool { return c.NShards <= 1 || i%c.NShards == c.Shard }
func (c *Ctx) Expired() bool   { return time.Now().After(c.Deadline) }

// ExpiredEvery checks the deadline on every n-th call (n a power of two). It counts calls of this
// worker: testing "i&(n-1) == 0" on a subset index would only ever fire in the worker whose shard
// number is congruent to 0, because a worker only sees the indexes of its own shard.
func (c *Ctx) ExpiredEvery(n int) bool {
	c.ticks++
	return c.ticks&(n-1) == 0 && c.Expired()
}

// Part is one independently shardable piece of a check.
type Part struct {
	Name string
	Run  func(c *Ctx, r *Result)
	// Replay re-runs one recorded case and returns the violation message ("" if it does not fail).
	Replay func(c *Ctx, cs json.RawMessage) string
}

// Check describes one property check.
type Check struct {
	ID          string
	Level       string // evidence level
	Rule        string
	Assumptions []string
	Parts       []Part
	// Serial forces a single worker process (e.g. allocation measurements).
	Serial bool
	// WorkerInit runs once in every worker before the parts (e.g. install deterministic pools).
	WorkerInit func()
	// QuickBudget / ThoroughBudget: wall-clock guard (not an oracle) after which parts stop with exhaustive:false.
	QuickBudget, ThoroughBudget time.Duration
}

var registry = map[string]*Check{}

func Register(c *Check) { registry[c.ID] = c }

// KnownFinding is one entry of /verif/known_findings.json.
type KnownFinding struct {
	Property string `json:"property"`
	Status   string `json:"status"` // "known" | "fixed"
	ID       string `json:"id"`
	What     string `json:"what"`
	Class    string `json:"class,omitempty"`     // violation class the entry covers
	MsgRegex string `json:"msg_regex,omitempty"` // narrow predicate over the violation message
	Commit   string `json:"commit,omitempty"`
	Witness  any    `json:"witness,omitempty"`
	Why      string `json:"why_not_fixed,omitempty"`
}

func loadKnown(dir string) []KnownFinding {
	b, err := os.ReadFile(filepath.Join(dir, "known_findings.json"))
	if err != nil {
		return nil
	}
	var f struct {
		Findings []KnownFinding `json:"findings"`
	}
	if err := json.Unmarshal(b, &f); err != nil {
		fmt.Fprintln(os.Stderr, "known_findings.json:", err)
		os.Exit(2)
	}
	return f.Findings
}

func (k *KnownFinding) matches(v *Violation) bool {
	if k.Status != "known" {
		return false
	}
	if k.Class != "" && k.Class != v.Class {
		return false
	}
	if k.MsgRegex != "" {
		re, err := regexp.Compile(k.MsgRegex)
		if err != nil || !re.MatchString(v.Msg) {
			return false
		}
	}
	return k.Class != "" || k.MsgRegex != ""
}

// Main is the entry point of the foxcheck binary.
func Main() {
	id := flag.String("id", "", "property id")
	tier := flag.String("tier", envOr("VERIF_TIER", "quick"), "quick|thorough")
	shard := flag.String("shard", "", "k/n (worker mode)")
	replay := flag.String("replay", "", "replay file")
	verifDir := flag.String("verif", "/verif", "verif directory")
	workers := flag.Int("workers", 0, "number of worker processes (default: NumCPU)")
	flag.Parse()
	ck := registry[*id]
	if ck == nil {
		fmt.Fprintf(os.Stderr, "unknown property %q\n", *id)
		os.Exit(2)
	}
	seed, _ := strconv.ParseInt(envOr("VERIF_SEED", "0"), 10, 64)
	budget := ck.QuickBudget
	if *tier == "thorough" {
		budget = ck.ThoroughBudget
	}
	if budget == 0 {
		budget = 10 * time.Minute
		if *tier == "thorough" {
			budget = 40 * time.Minute
		}
	}
	if *replay != "" {
		os.Exit(doReplay(ck, *replay, *tier, seed))
	}
	if *shard != "" {
		var k, n int
		fmt.Sscanf(*shard, "%d/%d", &k, &n)
		dl, _ := strconv.ParseInt(os.Getenv("VERIF_DEADLINE_UNIX"), 10, 64)
		ctx := &Ctx{ID: ck.ID, Tier: *tier, Seed: seed, Shard: k, NShards: n, Deadline: time.Unix(dl, 0)}
		if ck.WorkerInit != nil {
			ck.WorkerInit()
		}
		res := runParts(ck, ctx)
		// results go to a file: fox's default log handler (Logger/Recovery) writes to stdout/stderr
		out := os.Stdout
		if pth := os.Getenv("VERIF_OUT"); pth != "" {
			f, err := os.Create(pth)
			if err != nil {
				fmt.Fprintln(os.Stderr, err)
				os.Exit(2)
			}
			defer f.Close()
			out = f
		}
		enc := json.NewEncoder(out)
		if err := enc.Encode(res); err != nil {
			fmt.Fprintln(os.Stderr, err)
			os.Exit(2)
		}
		return
	}
	os.Exit(parent(ck, *tier, seed, *verifDir, *workers, budget))
}

func envOr(k, d string) string {
	if v := os.Getenv(k); v != "" {
		return v
	}
	return d
}

func runParts(ck *Check, ctx *Ctx) map[string]*Result {
	out := map[string]*Result{}
	for _, p := range ck.Parts {
		r := NewResult()
		func() {
			defer func() {
				if e := recover(); e != nil {
					buf := make([]byte, 8192)
					buf = buf[:runtime.Stack(buf, false)]
					r.Errors = append(r.Errors, fmt.Sprintf("part %s panicked: %v\n%s", p.Name, e, buf))
				}
			}()
			p.Run(ctx, r)
		}()
		out[p.Name] = r
	}
	return out
}

func parent(ck *Check, tier string, seed int64, verifDir string, workers int, budget time.Duration) int {
	start := time.Now()
	n := workers
	if n <= 0 {
		n = runtime.NumCPU()
	}
	if n > 16 {
		n = 16
	}
	if ck.Serial {
		n = 1
	}
	deadline := start.Add(budget)
	results := make([]map[string]*Result, n)
	errs := make([]string, n)
	var wg sync.WaitGroup
	for k := 0; k < n; k++ {
		wg.Add(1)
		go func(k int) {
			defer wg.Done()
			cmd := exec.Command(os.Args[0], "-id", ck.ID, "-tier", tier, "-shard", fmt.Sprintf("%d/%d", k, n))
			gmp := "GOMAXPROCS=2"
			if ck.Serial {
				gmp = "GOMAXPROCS=" + strconv.Itoa(runtime.NumCPU())
			}
			outFile := filepath.Join(os.TempDir(), fmt.Sprintf("foxcheck-%d-%d.json", os.Getpid(), k))
			defer os.Remove(outFile)
			cmd.Env = append(os.Environ(), "VERIF_DEADLINE_UNIX="+strconv.FormatInt(deadline.Unix(), 10), gmp, "VERIF_OUT="+outFile)
			stdout, stderr := &tailBuf{max: 1 << 16}, &tailBuf{max: 1 << 16}
			cmd.Stdout = stdout
			cmd.Stderr = stderr
			// hard stop well after the time guard: a worker that hangs (e.g. a real lock held across a
			// scheduling point in code the shim does not cover) must not hang the check
			if err := cmd.Start(); err != nil {
				errs[k] = fmt.Sprintf("worker %d: %v", k, err)
				return
			}
			done := make(chan error, 1)
			go func() { done <- cmd.Wait() }()
			var err error
			select {
			case err = <-done:
			case <-time.After(time.Until(deadline) + 3*time.Minute):
				cmd.Process.Kill()
				<-done
				err = fmt.Errorf("killed: still running 3 minutes after the time guard")
			}
			if err != nil {
				errs[k] = fmt.Sprintf("worker %d: %v\n%s", k, err, tail(stderr.String(), 4000))
				return
			}
			raw, err := os.ReadFile(outFile)
			var m map[string]*Result
			if err == nil {
				err = json.Unmarshal(raw, &m)
			}
			if err != nil {
				errs[k] = fmt.Sprintf("worker %d: bad output: %v\n%s\n%s", k, err, tail(stdout.String(), 2000), tail(stderr.String(), 2000))
				return
			}
			results[k] = m
		}(k)
	}
	wg.Wait()
	total := NewResult()
	perPart := map[string]*Result{}
	machinery := []string{}
	for k := 0; k < n; k++ {
		if errs[k] != "" {
			machinery = append(machinery, errs[k])
			continue
		}
		for name, r := range results[k] {
			if perPart[name] == nil {
				perPart[name] = NewResult()
			}
			perPart[name].Merge(r)
		}
	}
	for _, r := range perPart {
		if r.NontrivialIsOutcomes {
			r.DistinctNontrivial = int64(len(r.Outcomes))
		}
		total.Merge(r)
	}
	machinery = append(machinery, total.Errors...)
	wall := time.Since(start).Seconds()

	// classify violations
	known := loadKnown(verifDir)
	seenKnown := map[string]bool{}
	var unknown []Violation
	sort.SliceStable(total.Violations, func(i, j int) bool { return total.Violations[i].Msg < total.Violations[j].Msg })
	for i := range total.Violations {
		v := &total.Violations[i]
		matched := false
		for j := range known {
			if known[j].Property == ck.ID && known[j].matches(v) {
				matched = true
				if !seenKnown[known[j].ID] {
					seenKnown[known[j].ID] = true
					fmt.Printf("KNOWN-FINDING: property=%s %s: %s\n", ck.ID, known[j].ID, known[j].What)
				}
				break
			}
		}
		if !matched {
			unknown = append(unknown, *v)
		}
	}
	exit := 0
	// VERIF_SCRATCH redirects evidence and replay artefacts (background timing runs must not touch
	// the committed evidence)
	outDir := verifDir
	if d := os.Getenv("VERIF_SCRATCH"); d != "" {
		outDir = d
	}
	replayDir := filepath.Join(outDir, "replays")
	printed := 0
	for _, v := range unknown {
		os.MkdirAll(replayDir, 0o755)
		b, _ := json.MarshalIndent(map[string]any{"property": ck.ID, "tier": tier, "violation": v}, "", " ")
		h := sha1.Sum(b)
		path := filepath.Join(replayDir, fmt.Sprintf("%s-%s.json", ck.ID, hex.EncodeToString(h[:5])))
		os.WriteFile(path, b, 0o644)
		if printed < 10 {
			fmt.Printf("VIOLATION property=%s replay=%s\n", ck.ID, path)
			fmt.Printf("  [%s/%s] %s\n", v.Part, v.Class, firstLines(v.Msg, 12))
			printed++
		}
		exit = 1
	}
	// Violations that were counted but not kept (cap) and whose class has no kept representative
	// are still violations: every class in counters must be either known or reported.
	for name, cnt := range total.Counters {
		if !strings.HasPrefix(name, "violations.") || cnt == 0 {
			continue
		}
		cls := strings.TrimPrefix(name, "violations.")
		found := false
		for _, v := range total.Violations {
			if v.Class == cls {
				found = true
				break
			}
		}
		if !found {
			fmt.Printf("VIOLATION property=%s replay=none (class %s: %d violations, none kept)\n", ck.ID, cls, cnt)
			exit = 1
		}
	}

	exhaustive := len(total.NotExhaustive) == 0 && len(machinery) == 0
	// evidence
	cov := map[string]any{
		"evaluations":         total.Evaluations,
		"distinct_nontrivial": total.DistinctNontrivial,
		"rule":                ck.Rule,
		"samples":             total.Samples,
		"exhaustive":          exhaustive,
		"abstained":           total.Abstained,
		"distinct_outcomes":   len(total.Outcomes),
		"counters":            total.Counters,
		"bounds":              total.Bounds,
		"violations_total":    total.ViolationCount,
		"violations_unlisted": len(unknown),
		"workers":             n,
	}
	if len(total.NotExhaustive) > 0 {
		cov["not_exhaustive"] = dedup(total.NotExhaustive)
	}
	parts := map[string]any{}
	for name, r := range perPart {
		parts[name] = map[string]any{
			"evaluations": r.Evaluations, "distinct_nontrivial": r.DistinctNontrivial, "states": r.States,
			"transitions": r.Transitions, "distinct_outcomes": len(r.Outcomes), "violations": r.ViolationCount, "bounds": r.Bounds,
		}
	}
	cov["parts"] = parts
	if ck.Level == "model_checking" {
		cov["states"] = total.States
		cov["transitions"] = total.Transitions
		cov["traces_validated_against_impl"] = total.TracesValidated
	}
	if len(total.Samples) == 0 {
		cov["samples"] = []any{"(none recorded)"}
	}
	ev := map[string]any{
		"property_id": ck.ID,
		"tier":        tier,
		"seed":        seed,
		"level":       ck.Level,
		"coverage":    cov,
		"assumptions": ck.Assumptions,
		"wall_s":      wall,
		"violations":  len(unknown),
	}
	os.MkdirAll(filepath.Join(outDir, "evidence"), 0o755)
	b, _ := json.MarshalIndent(ev, "", " ")
	if err := os.WriteFile(filepath.Join(outDir, "evidence", ck.ID+".json"), b, 0o644); err != nil {
		machinery = append(machinery, err.Error())
	}
	fmt.Printf("%s %s: evaluations=%d nontrivial=%d states=%d transitions=%d outcomes=%d violations=%d (unlisted %d) exhaustive=%v wall=%.1fs\n",
		ck.ID, tier, total.Evaluations, total.DistinctNontrivial, total.States, total.Transitions, len(total.Outcomes), total.ViolationCount, len(unknown), exhaustive, wall)
	names := make([]string, 0, len(perPart))
	for name := range perPart {
		names = append(names, name)
	}
	sort.Strings(names)
	for _, name := range names {
		r := perPart[name]
		fmt.Printf("  part %-28s eval=%-10d nontrivial=%-9d states=%-8d trans=%-9d outcomes=%-5d viol=%d\n", name, r.Evaluations, r.DistinctNontrivial, r.States, r.Transitions, len(r.Outcomes), r.ViolationCount)
	}
	for _, ne := range dedup(total.NotExhaustive) {
		fmt.Printf("  NOT-EXHAUSTIVE: %s\n", ne)
	}
	if len(machinery) > 0 {
		for _, m := range machinery {
			fmt.Fprintf(os.Stderr, "MACHINERY-ERROR: %s\n", m)
		}
		if exit == 0 {
			return 2
		}
	}
	return exit
}

func doReplay(ck *Check, path, tier string, seed int64) int {
	b, err := os.ReadFile(path)
	if err != nil {
		fmt.Fprintln(os.Stderr, err)
		return 2
	}
	var f struct {
		Violation struct {
			Part  string          `json:"part"`
			Class string          `json:"class"`
			Msg   string          `json:"msg"`
			Case  json.RawMessage `json:"case"`
		} `json:"violation"`
	}
	if err := json.Unmarshal(b, &f); err != nil {
		fmt.Fprintln(os.Stderr, err)
		return 2
	}
	for _, p := range ck.Parts {
		if p.Name != f.Violation.Part {
			continue
		}
		if p.Replay == nil {
			fmt.Fprintf(os.Stderr, "part %s has no replay function\n", p.Name)
			return 2
		}
		ctx := &Ctx{ID: ck.ID, Tier: tier, Seed: seed, NShards: 1, Deadline: time.Now().Add(time.Hour)}
		if ck.WorkerInit != nil {
			ck.WorkerInit()
		}
		m1 := p.Replay(ctx, f.Violation.Case)
		m2 := p.Replay(ctx, f.Violation.Case)
		if m1 != m2 {
			fmt.Printf("NONDETERMINISM: two replays differ:\n%s\n---\n%s\n", m1, m2)
			return 2
		}
		if m1 == "" {
			fmt.Printf("replay of %s: case does not fail on this tree\n", path)
			return 0
		}
		fmt.Printf("VIOLATION property=%s replay=%s\n  %s\n", ck.ID, path, firstLines(m1, 30))
		return 1
	}
	fmt.Fprintf(os.Stderr, "no part %q\n", f.Violation.Part)
	return 2
}

func tail(s string, n int) string {
	if len(s) > n {
		return s[len(s)-n:]
	}
	return s
}

func firstLines(s string, n int) string {
	l := strings.Split(s, "\n")
	if len(l) > n {
		l = append(l[:n], "...")
	}
	return strings.Join(l, "\n  ")
}

func dedup(in []string) []string {
	m := map[string]bool{}
	var out []string
	for _, s := range in {
		if !m[s] {
			m[s] = true
			out = append(out, s)
		}
	}
	sort.Strings(out)
	return out
}

// tailBuf keeps the last max bytes written to it.
type tailBuf struct {
	b   []byte
	max int
}

func (t *tailBuf) Write(p []byte) (int, error) {
	t.b = append(t.b, p...)
	if len(t.b) > 2*t.max {
		t.b = append([]byte{}, t.b[len(t.b)-t.max:]...)
	}
	return len(p), nil
}

func (t *tailBuf) String() string { return string(t.b) }

// NormStack keeps the function names of the top n frames of a stack trace (no goroutine ids,
// addresses or argument values), so that violation messages are deterministic across replays.
func NormStack(s string, n int) string {
	var out []string
	for _, l := range strings.Split(s, "\n") {
		if l == "" || l[0] == '\t' || strings.HasPrefix(l, "goroutine ") || strings.HasPrefix(l, "created by") {
			continue
		}
		if i := strings.LastIndexByte(l, '('); i > 0 {
			l = l[:i]
		}
		out = append(out, "        at "+l)
		if len(out) == n {
			break
		}
	}
	return strings.Join(out, "\n")
}
