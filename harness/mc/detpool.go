//go:build verif

package mc

import vs "github.com/tigerwill90/fox/verifsync"

// DeterministicPools installs a scheduler that is never run: every shim operation then acts
// directly on the logical state, which makes sync.Pool a deterministic LIFO free list (the context
// released by one request is the one the next request gets). Used by the sequential checks so
// that "what the previous user of a pooled context left behind" is reproducible. The returned
// function uninstalls it.
func DeterministicPools() func() {
	s := vs.NewSched(nil)
	s.Install()
	return s.Uninstall
}
