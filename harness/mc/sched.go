//go:build verif

package mc

import (
	"encoding/json"
	"fmt"
	"sort"
	"strings"

	vs "github.com/tigerwill90/fox/verifsync"
)

// Instance is one freshly built system under test for one execution.
type Instance struct {
	Bodies []func()
	Daemon []bool
	// Check inspects the finished execution and returns a canonical outcome string (for distinct
	// outcome counting and the determinism gate) and a violation message ("" if none).
	Check func(x *Exec) (outcome, class, violation string)
}

// Scenario is a closed concurrent (or environment-choice) program.
type Scenario struct {
	Name       string
	Describe   string // human readable description of the program (goes into evidence samples)
	PoolChoice bool
	LogEvents  bool
	// Build is called once per execution, after the scheduler is installed (setup phase: shim
	// operations act directly, no scheduling).
	Build func() *Instance
	// Require lists op kinds that must have been intercepted at least once in every execution
	// (instrumentation assertion).
	Require []vs.OpKind
	// SpinClass, when set: an execution in which a thread busy-waited on another one (see vs.Sched.SpinWaits) and
	// whose Check reports nothing is a violation of this class (waiting by polling is waiting)
	SpinClass string
}

// Exec is a finished execution.
type Exec struct {
	S *vs.Sched
}

type schedCase struct {
	Scenario string `json:"scenario"`
	Choices  []int  `json:"choices"`
	Bound    int    `json:"bound"`
}

type runOut struct {
	points    []vs.Point
	outcome   string
	class     string
	violation string
	machinery string
}

func runOnce(sc *Scenario, prefix []int) runOut {
	s := vs.NewSched(prefix)
	s.PoolChoice = sc.PoolChoice
	s.LogEvent = sc.LogEvents
	s.Install()
	var out runOut
	func() {
		defer s.Uninstall()
		inst := sc.Build()
		s.Run(inst.Bodies, inst.Daemon)
		out.points = s.Points
		if s.Diverged != "" {
			out.machinery = s.Diverged
			return
		}
		for _, k := range sc.Require {
			if s.Counts[k] == 0 {
				out.machinery = fmt.Sprintf("instrumentation missing: no %s operation intercepted in scenario %s", k, sc.Name)
				return
			}
		}
		// Check runs with the scheduler still installed (setup-like mode: no scheduling)
		out.outcome, out.class, out.violation = inst.Check(&Exec{S: s})
		if out.violation == "" && sc.SpinClass != "" && s.SpinWaits > 0 {
			out.outcome, out.class, out.violation = "busy-wait", sc.SpinClass, fmt.Sprintf("scenario %s: %s", sc.Name, s.SpinInfo)
		}
	}()
	return out
}

// ExploreOpts bounds an exploration.
type ExploreOpts struct {
	Bound     int // max preemptions; <0 = unbounded
	MaxExecs  int64
	ShardLvls int // expansion levels used for sharding (default 2)
}

// Explore enumerates every execution of sc within the preemption bound (the part belonging to
// this shard) and records results into r.
func Explore(c *Ctx, r *Result, part string, sc *Scenario, o ExploreOpts) {
	type item struct {
		prefix []int
		level  int
	}
	if o.ShardLvls == 0 {
		o.ShardLvls = 2
	}
	stack := []item{{nil, 0}}
	var execs, points int64
	nviol := 0
	maxPts := 0
	leafIdx := 0
	bname := fmt.Sprintf("%s.preemption_bound", sc.Name)
	if o.Bound < 0 {
		r.Bounds[bname] = "unbounded"
	} else {
		r.Bounds[bname] = fmt.Sprint(o.Bound)
	}
	for len(stack) > 0 {
		it := stack[len(stack)-1]
		stack = stack[:len(stack)-1]
		// sharding: items at level == ShardLvls are distributed; items above are run by everyone
		// (for expansion) but counted by shard 0 only.
		counted := true
		if c.NShards > 1 {
			if it.level < o.ShardLvls {
				counted = c.Shard == 0
			} else if it.level == o.ShardLvls {
				mine := c.Mine(leafIdx)
				leafIdx++
				if !mine {
					continue
				}
			}
		}
		if o.MaxExecs > 0 && execs >= o.MaxExecs || (execs&1023 == 1023 && c.Expired()) {
			r.NotExhaustive = append(r.NotExhaustive, fmt.Sprintf("%s/%s: stopped after %d executions (cap/time guard) at bound %d", part, sc.Name, execs, o.Bound))
			break
		}
		x := runOnce(sc, it.prefix)
		if x.machinery != "" {
			r.Errors = append(r.Errors, fmt.Sprintf("%s/%s: %s (prefix %v)", part, sc.Name, x.machinery, it.prefix))
			return
		}
		execs++
		if counted {
			r.Evaluations++
			r.Transitions += int64(len(x.points))
			r.TracesValidated++
			points += int64(len(x.points))
			if len(x.points) > maxPts {
				maxPts = len(x.points)
			}
			r.Outcome(sc.Name + ": " + x.outcome)
			if execs <= 2 {
				r.Sample(map[string]any{"scenario": sc.Name, "program": sc.Describe, "schedule (choice at every point with >1 enabled thread)": choicesOf(x.points), "outcome": x.outcome})
			}
			if x.violation != "" {
				full := choicesOf(x.points)
				// determinism gate
				y := runOnce(sc, full)
				z := runOnce(sc, full)
				if y.outcome != x.outcome || y.violation != x.violation || z.outcome != x.outcome || z.violation != x.violation {
					r.Errors = append(r.Errors, fmt.Sprintf("NONDETERMINISM in %s/%s: schedule %v gives differing observations:\n%s | %s\n%s | %s\n%s | %s", part, sc.Name, full, x.outcome, x.violation, y.outcome, y.violation, z.outcome, z.violation))
					return
				}
				r.Violate(part, x.class, fmt.Sprintf("scenario %s, schedule %v (preemptions=%d): %s", sc.Name, full, preemptions(x.points, len(x.points)), x.violation),
					schedCase{Scenario: sc.Name, Choices: full, Bound: o.Bound})
				if nviol++; nviol >= 64 {
					// enough counterexamples for this scenario: the rest of its schedule tree adds none of a new kind
					r.NotExhaustive = append(r.NotExhaustive, fmt.Sprintf("%s/%s: stopped after %d violating executions", part, sc.Name, nviol))
					break
				}
			}
		}
		// expand
		pre := 0 // preemptions before point i
		for i := 0; i < len(x.points); i++ {
			p := x.points[i]
			if i >= len(it.prefix) {
				cost := pre
				if !p.Data && p.RunningEnabled {
					cost++
				}
				if o.Bound < 0 || cost <= o.Bound {
					for alt := p.N - 1; alt >= 1; alt-- {
						np := make([]int, i+1)
						for j := 0; j < i; j++ {
							np[j] = x.points[j].Chosen
						}
						np[i] = alt
						stack = append(stack, item{np, it.level + 1})
					}
				}
			}
			if !p.Data && p.RunningEnabled && p.Chosen != 0 {
				pre++
			}
		}
	}
	// distinct non-trivial: executions are distinct by construction (distinct choice sequences);
	// non-trivial = at least one context switch away from an enabled thread or a data choice != 0
	_ = maxPts
	r.States += points // visited (execution, position) pairs
}

func preemptions(pts []vs.Point, upto int) int {
	n := 0
	for i := 0; i < upto && i < len(pts); i++ {
		if !pts[i].Data && pts[i].RunningEnabled && pts[i].Chosen != 0 {
			n++
		}
	}
	return n
}

func choicesOf(pts []vs.Point) []int {
	out := make([]int, len(pts))
	for i, p := range pts {
		out[i] = p.Chosen
	}
	return out
}

// ReplaySched replays a recorded schedule of one of the given scenarios.
func ReplaySched(scs []*Scenario, raw json.RawMessage) string {
	var sc schedCase
	if err := json.Unmarshal(raw, &sc); err != nil {
		return "bad case: " + err.Error()
	}
	for _, s := range scs {
		if s.Name == sc.Scenario {
			x := runOnce(s, sc.Choices)
			if x.machinery != "" {
				return "MACHINERY: " + x.machinery
			}
			return x.violation
		}
	}
	return "unknown scenario " + sc.Scenario
}

// CountNontrivial derives distinct_nontrivial for scheduler parts from the outcome table: the
// number of distinct observable outcomes (each outcome is a distinct, non-trivial case class).
func CountNontrivial(r *Result) {
	r.NontrivialIsOutcomes = true
}

// SortedKeys is a small helper for deterministic rendering.
func SortedKeys[V any](m map[string]V) []string {
	ks := make([]string, 0, len(m))
	for k := range m {
		ks = append(ks, k)
	}
	sort.Strings(ks)
	return ks
}

// Join renders a list deterministically.
func Join(xs []string) string { return strings.Join(xs, ",") }
