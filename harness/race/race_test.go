//go:build verif

// Package race is the one side pass that is not model checking: the same harness bodies as the
// scheduler scenarios, free-running on real goroutines with the shim in pass-through mode (real
// sync primitives), under the Go race detector. It is dynamic race detection (sampling of
// schedules) and serves as the side condition "no unsynchronised conflicting accesses" that makes
// scheduling at synchronisation operations complete.
package race

import (
	"fmt"
	"os"
	"strconv"
	"sync"
	"testing"

	"github.com/tigerwill90/fox"

	"verifharness/conc"
	"verifharness/fx"
	"verifharness/props/c05"
)

func iters() int {
	if v, err := strconv.Atoi(os.Getenv("RACE_ITERS")); err == nil && v > 0 {
		return v
	}
	return 150
}

func TestRaceC05(t *testing.T) {
	progs := c05.Programs()
	gen := c05.Generated(true)
	for i := 0; i < len(gen); i += 7 {
		progs = append(progs, gen[i])
	}
	for _, p := range progs {
		for it := 0; it < iters(); it++ {
			f, err := fox.New()
			if err != nil {
				t.Fatal(err)
			}
			conc.Populate(f, p.Init)
			var wg sync.WaitGroup
			start := make(chan struct{})
			for _, script := range p.Threads {
				script := script
				wg.Add(1)
				go func() {
					defer wg.Done()
					<-start
					for _, o := range script {
						conc.Do(f, o)
					}
				}()
			}
			close(start)
			wg.Wait()
		}
	}
}

// TestRaceC05Readers: many goroutines serving requests of every shape (parameters with backtracking,
// infix catch-all, hostname, ignored slash, redirect, 404/405/OPTIONS, Lookup, Reverse, Iter, Clone,
// CloneWith) while writers replace the tree.
func TestRaceC05Readers(t *testing.T) {
	for it := 0; it < iters()/10+1; it++ {
		f, err := fox.New(fox.WithNoMethod(true), fox.WithAutoOptions(true))
		if err != nil {
			t.Fatal(err)
		}
		h := func(c fox.Context) {
			for range c.Params() {
			}
			if c.Param("x") == "clone" {
				_ = c.Clone()
				cc := c.CloneWith(c.Writer(), c.Request())
				cc.Close()
			}
			c.Writer().WriteHeader(200)
		}
		for _, p := range []string{"/a", "/a/{x}", "/a/{x}/b", "/a/*{w}/c", "/i/{x}/", "/r/{x}/", "a.b/h/{x}", "{s}.b/h", "/*{any}"} {
			var opts []fox.RouteOption
			if p == "/i/{x}/" {
				opts = append(opts, fox.WithIgnoreTrailingSlash(true))
			}
			if p == "/r/{x}/" {
				opts = append(opts, fox.WithRedirectTrailingSlash(true))
			}
			if _, err := f.Handle("GET", p, h, opts...); err != nil {
				t.Fatal(err)
			}
		}
		reqs := [][3]string{{"GET", "", "/a"}, {"GET", "", "/a/1"}, {"GET", "", "/a/clone"}, {"GET", "", "/a/1/b"}, {"GET", "", "/a/1/2/c"}, {"GET", "", "/a/1/2/d"}, {"GET", "", "/i/7"},
			{"GET", "", "/r/7"}, {"GET", "a.b", "/h/9"}, {"GET", "x.b", "/h"}, {"POST", "", "/a"}, {"OPTIONS", "", "/a"}, {"OPTIONS", "", "*"}, {"DELETE", "", "/zzz"}}
		var wg sync.WaitGroup
		start := make(chan struct{})
		for g := 0; g < 8; g++ {
			g := g
			wg.Add(1)
			go func() {
				defer wg.Done()
				<-start
				for k := 0; k < 40; k++ {
					r := reqs[(g+k)%len(reqs)]
					f.ServeHTTP(fx.NewRW(), fx.Req(r[0], r[1], r[2]))
					if k%5 == 0 {
						f.Reverse(r[0], r[1], r[2])
						_, cc, _ := f.Lookup(fx.WrapRW(fx.NewRW()), fx.Req(r[0], r[1], r[2]))
						if cc != nil {
							cc.Close()
						}
						for range f.Iter().All() {
						}
						f.Has("GET", "/a/{x}")
					}
				}
			}()
		}
		for g := 0; g < 2; g++ {
			g := g
			wg.Add(1)
			go func() {
				defer wg.Done()
				<-start
				for k := 0; k < 10; k++ {
					p := fmt.Sprintf("/w%d/%d/{y}", g, k)
					f.Handle("GET", p, h)
					f.Update("GET", "/a/{x}", h)
					f.Updates(func(txn *fox.Txn) error {
						txn.Delete("GET", p)
						txn.Handle("GET", p+"/z", h)
						return nil
					})
					f.Delete("GET", p+"/z")
				}
			}()
		}
		close(start)
		wg.Wait()
	}
}

func TestRaceC13(t *testing.T) {
	mw := func(next fox.HandlerFunc) fox.HandlerFunc { return func(c fox.Context) { next(c) } }
	for _, globals := range []int{0, 1, 3, 5, 6} {
		for it := 0; it < iters(); it++ {
			var opts []fox.GlobalOption
			for i := 0; i < globals; i++ {
				opts = append(opts, fox.WithMiddleware(mw))
			}
			f, err := fox.New(opts...)
			if err != nil {
				t.Fatal(err)
			}
			var wg sync.WaitGroup
			start := make(chan struct{})
			for g := 0; g < 4; g++ {
				g := g
				wg.Add(1)
				go func() {
					defer wg.Done()
					<-start
					rt, err := f.NewRoute(fmt.Sprintf("/r%d", g), fx.VerHandler(g), fox.WithMiddleware(mw, mw))
					if err != nil {
						t.Error(err)
						return
					}
					if err := f.HandleRoute("GET", rt); err != nil {
						t.Error(err)
					}
					f.ServeHTTP(fx.NewRW(), fx.Req("GET", "", fmt.Sprintf("/r%d", g)))
				}()
			}
			close(start)
			wg.Wait()
		}
	}
}
