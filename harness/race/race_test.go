//go:build verif

// Package race is the one side pass that is not model checking: the same harness bodies as the
// scheduler scenarios, free-running on real goroutines with the shim in pass-through mode (real
// sync primitives), under the Go race detector. It is dynamic race detection (sampling of
// schedules) and serves as the side condition "no unsynchronised conflicting accesses" that makes
// scheduling at synchronisation operations complete.
package race

import (
	"fmt"
	"os"
	"strconv"
	"sync"
	"testing"

	"github.com/tigerwill90/fox"

	"verifharness/conc"
	"verifharness/fx"
	"verifharness/props/c05"
)

func iters() int {
	if v, err := strconv.Atoi(os.Getenv("RACE_ITERS")); err == nil && v > 0 {
		return v
	}
	return 150
}

func TestRaceC05(t *testing.T) {
	progs := c05.Programs()
	gen := c05.Generated(true)
	for i := 0; i < len(gen); i += 7 {
		progs = append(progs, gen[i])
	}
	for _, p := range progs {
		for it := 0; it < iters(); it++ {
			f, err := fox.New()
			if err != nil {
				t.Fatal(err)
			}
			conc.Populate(f, p.Init)
			var wg sync.WaitGroup
			start := make(chan struct{})
			for _, script := range p.Threads {
				script := script
				wg.Add(1)
				go func() {
					defer wg.Done()
					<-start
					for _, o := range script {
						conc.Do(f, o)
					}
				}()
			}
			close(start)
			wg.Wait()
		}
	}
}

func TestRaceC13(t *testing.T) {
	mw := func(next fox.HandlerFunc) fox.HandlerFunc { return func(c fox.Context) { next(c) } }
	for _, globals := range []int{0, 1, 3, 5, 6} {
		for it := 0; it < iters(); it++ {
			var opts []fox.GlobalOption
			for i := 0; i < globals; i++ {
				opts = append(opts, fox.WithMiddleware(mw))
			}
			f, err := fox.New(opts...)
			if err != nil {
				t.Fatal(err)
			}
			var wg sync.WaitGroup
			start := make(chan struct{})
			for g := 0; g < 4; g++ {
				g := g
				wg.Add(1)
				go func() {
					defer wg.Done()
					<-start
					rt, err := f.NewRoute(fmt.Sprintf("/r%d", g), fx.VerHandler(g), fox.WithMiddleware(mw, mw))
					if err != nil {
						t.Error(err)
						return
					}
					if err := f.HandleRoute("GET", rt); err != nil {
						t.Error(err)
					}
					f.ServeHTTP(fx.NewRW(), fx.Req("GET", "", fmt.Sprintf("/r%d", g)))
				}()
			}
			close(start)
			wg.Wait()
		}
	}
}
