// Package rsx is the route-set explorer: pattern pools generated from small grammars, enumeration
// of all subsets up to a size, construction of an instrumented real router plus the reference
// matcher for each set, and a uniform observation of every routing entry point for a request.
package rsx

import (
	"fmt"
	"net/http"
	"sort"
	"strconv"
	"strings"

	"github.com/tigerwill90/fox"

	"verifharness/fx"
	"verifharness/gen"
	"verifharness/ref"
)

// Slash options of a route.
const (
	SlashNone = iota
	SlashIgnore
	SlashRedirect
	// explicit option lists (route options are applied in order; enabling one mode disables the other,
	// disabling one leaves the other as it is):
	SlashIgnoreThenRedirectOff // WithIgnoreTrailingSlash(true), WithRedirectTrailingSlash(false): ignores
	SlashRedirectThenIgnoreOff // WithRedirectTrailingSlash(true), WithIgnoreTrailingSlash(false): redirects
	SlashBothOff               // WithIgnoreTrailingSlash(false), WithRedirectTrailingSlash(false): neither, whatever the router-wide mode
	SlashRedirectOff           // WithRedirectTrailingSlash(false): a router-wide ignore mode stays, a router-wide redirect mode is switched off
	SlashIgnoreOff             // WithIgnoreTrailingSlash(false): a router-wide redirect mode stays, a router-wide ignore mode is switched off
	NSlashKinds
)

type slashOpt struct {
	ignore bool // which option: WithIgnoreTrailingSlash (true) or WithRedirectTrailingSlash (false)
	val    bool
}

var slashOptLists = [NSlashKinds][]slashOpt{
	SlashIgnore:                {{true, true}},
	SlashRedirect:              {{false, true}},
	SlashIgnoreThenRedirectOff: {{true, true}, {false, false}},
	SlashRedirectThenIgnoreOff: {{false, true}, {true, false}},
	SlashBothOff:               {{true, false}, {false, false}},
	SlashRedirectOff:           {{false, false}},
	SlashIgnoreOff:             {{true, false}},
}

var slashKindNames = [NSlashKinds]string{"", " [ignore]", " [redirect]", " [ignore(true),redirect(false)]", " [redirect(true),ignore(false)]", " [ignore(false),redirect(false)]", " [redirect(false)]", " [ignore(false)]"}

// EffectiveSlash folds the route's option list over the router-wide mode and returns SlashNone,
// SlashIgnore or SlashRedirect.
func EffectiveSlash(kind, profSlash int) int {
	ig, rd := profSlash == SlashIgnore, profSlash == SlashRedirect
	for _, o := range slashOptLists[kind] {
		if o.ignore {
			ig = o.val
			if o.val {
				rd = false
			}
		} else {
			rd = o.val
			if o.val {
				ig = false
			}
		}
	}
	switch {
	case ig:
		return SlashIgnore
	case rd:
		return SlashRedirect
	}
	return SlashNone
}

// RouteSpec is one route of a set.
type RouteSpec struct {
	Method  string `json:"m"`
	Pattern string `json:"p"`
	Slash   int    `json:"s,omitempty"`
}

func (r RouteSpec) String() string {
	return r.Method + " " + r.Pattern + slashKindNames[r.Slash]
}

// Profile is a router-wide option profile.
type Profile struct {
	NoMethod    bool `json:"nomethod,omitempty"`
	AutoOptions bool `json:"autooptions,omitempty"`
	Slash       int  `json:"slash,omitempty"` // global default for routes with SlashNone? (applied as router option)
}

// Special handler ids.
const (
	HNone     = 0
	HNoRoute  = -1
	HNoMethod = -2
	HOptions  = -3
	HRedirect = -4
)

// Capture is what the instrumented handlers record for one request.
type Capture struct {
	Handler       int // route index+1, or a special id, 0 if none ran
	Runs          int
	Params        []ref.KV
	Pattern       string
	RouteNil      bool
	Scope         fox.HandlerScope
	RedirectMw    bool // the redirect-scope middleware ran
	RedirParams   []ref.KV
	RedirRouteNil bool
	RedirPattern  string
	RedirScope    fox.HandlerScope
	// Reentry: what the handler saw when it re-read its context after doing a lookup of its own
	// (another pooled context taken while this one is live); "" when unchanged
	Reentry string
}

// reenter performs a lookup from inside a handler (the documented Router.Lookup pattern) and
// reports whether the handler's own context still reads the same afterwards.
func (e *Env) reenter(c fox.Context, params []ref.KV, pattern string, routeNil bool, scope fox.HandlerScope) {
	if e.probe == nil {
		return
	}
	if _, cc, _ := e.F.Lookup(fx.WrapRW(e.probeW), e.probe); cc != nil {
		cc.Close()
	}
	after := collect(c)
	if !SameKV(after, params) || c.Pattern() != pattern || (c.Route() == nil) != routeNil || c.Scope() != scope {
		e.Cap.Reentry = fmt.Sprintf("after a Lookup issued by the handler its own context reads params=[%s] pattern=%q routeNil=%v scope=%d (before: [%s] %q %v %d)",
			KVString(after), c.Pattern(), c.Route() == nil, c.Scope(), KVString(params), pattern, routeNil, scope)
	}
}

// Env is an instrumented router together with its reference model.
type Env struct {
	Set     []RouteSpec
	Prof    Profile
	F       *fox.Router
	Routes  []*fox.Route
	Ref     map[string]*ref.Matcher // per method, strict reading
	RefLax  map[string]*ref.Matcher // per method, lax prefixed catch-all reading
	RRoutes []*ref.RRoute
	Methods []string       // methods that have routes, in first-registration order
	Single  []*ref.Matcher // one matcher per route (route alone), for contestedness counting
	Cap     *Capture
	W       *fx.RW
	Views   *TxnViews     // optional, set by WithViews
	probe   *http.Request // request matching the first route of the set (handler re-entrancy)
	probeW  *fx.RW
}

// WithViews attaches the transaction views (see TxnViews) to the environment.
func (e *Env) WithViews() error {
	v, err := e.BuildTxnViews()
	if err != nil {
		return err
	}
	e.Views = v
	return nil
}

// Done releases the attached views.
func (e *Env) Done() {
	if e.Views != nil {
		e.Views.Close()
		e.Views = nil
	}
}

// collect reads the parameters through Params(); the by-name accessor must agree with it (first
// occurrence of a name) and a disagreement is appended as an extra pseudo-parameter "name!Param()",
// so that every comparison with the expected list reports it.
func collect(c fox.Context) []ref.KV {
	var out []ref.KV
	seen := map[string]bool{}
	var extra []ref.KV
	for p := range c.Params() {
		out = append(out, ref.KV{K: p.Key, V: p.Value})
		if !seen[p.Key] {
			seen[p.Key] = true
			if got := c.Param(p.Key); got != p.Value {
				extra = append(extra, ref.KV{K: p.Key + "!Param()", V: got})
			}
		}
	}
	if got := c.Param("no such parameter"); got != "" {
		extra = append(extra, ref.KV{K: "absent!Param()", V: got})
	}
	return append(out, extra...)
}

// NewEnv builds the router for the profile (no routes yet).
func NewEnv(prof Profile) *Env {
	e := &Env{Prof: prof, Cap: &Capture{}, W: fx.NewRW()}
	special := func(id int, def fox.HandlerFunc) fox.HandlerFunc {
		return func(c fox.Context) {
			e.Cap.Handler = id
			e.Cap.Runs++
			e.Cap.Params = collect(c)
			e.Cap.Pattern = c.Pattern()
			e.Cap.RouteNil = c.Route() == nil
			e.Cap.Scope = c.Scope()
			e.reenter(c, e.Cap.Params, e.Cap.Pattern, e.Cap.RouteNil, e.Cap.Scope)
			def(c)
		}
	}
	opts := []fox.GlobalOption{
		fox.WithNoRouteHandler(special(HNoRoute, fox.DefaultNotFoundHandler)),
		fox.WithNoMethodHandler(special(HNoMethod, fox.DefaultMethodNotAllowedHandler)),
		fox.WithOptionsHandler(special(HOptions, fox.DefaultOptionsHandler)),
		fox.WithNoMethod(prof.NoMethod),
		fox.WithAutoOptions(prof.AutoOptions),
		fox.WithMiddlewareFor(fox.RedirectHandler, func(next fox.HandlerFunc) fox.HandlerFunc {
			return func(c fox.Context) {
				e.Cap.RedirectMw = true
				e.Cap.RedirParams = collect(c)
				e.Cap.RedirRouteNil = c.Route() == nil
				e.Cap.RedirPattern = c.Pattern()
				e.Cap.RedirScope = c.Scope()
				e.reenter(c, e.Cap.RedirParams, e.Cap.RedirPattern, e.Cap.RedirRouteNil, e.Cap.RedirScope)
				e.Cap.Handler = HRedirect
				e.Cap.Runs++
				next(c)
			}
		}),
	}
	switch prof.Slash {
	case SlashIgnore:
		opts = append(opts, fox.WithIgnoreTrailingSlash(true))
	case SlashRedirect:
		opts = append(opts, fox.WithRedirectTrailingSlash(true))
	}
	f, err := fox.New(opts...)
	if err != nil {
		panic(err)
	}
	e.F = f
	return e
}

// Handler returns the instrumented handler for route index i.
func (e *Env) Handler(i int) fox.HandlerFunc {
	return func(c fox.Context) {
		e.Cap.Handler = i + 1
		e.Cap.Runs++
		e.Cap.Params = collect(c)
		e.Cap.Pattern = c.Pattern()
		e.Cap.RouteNil = c.Route() == nil
		e.Cap.Scope = c.Scope()
		e.reenter(c, e.Cap.Params, e.Cap.Pattern, e.Cap.RouteNil, e.Cap.Scope)
		if len(e.Cap.Params) > 0 {
			e.Cap.Params = append(e.Cap.Params, wrappedDisagreement(c, e.Cap.Params)...)
		}
		c.Writer().WriteHeader(200)
	}
}

// wrappedDisagreement runs a net/http handler through the WrapF adapter on the same context: the parameters
// it finds in its request context (ParamsFromContext) must be the ones the fox handler read. A disagreement
// is returned as a pseudo-parameter, so that every comparison with the expected list reports it.
func wrappedDisagreement(c fox.Context, want []ref.KV) (extra []ref.KV) {
	ran := false
	fox.WrapF(func(w http.ResponseWriter, r *http.Request) {
		ran = true
		ps := fox.ParamsFromContext(r.Context())
		var got []ref.KV
		for _, p := range ps {
			got = append(got, ref.KV{K: p.Key, V: p.Value})
		}
		if !SameKV(got, want) {
			extra = append(extra, ref.KV{K: "wrapped!ParamsFromContext", V: KVString(got)})
		} else if v := ps.Get(want[0].K); v != want[0].V {
			extra = append(extra, ref.KV{K: "wrapped!Params.Get(" + want[0].K + ")", V: v})
		}
		if r.URL != c.Request().URL || r.Method != c.Request().Method || r.Host != c.Request().Host {
			extra = append(extra, ref.KV{K: "wrapped!request", V: r.Method + " " + r.Host + r.URL.String()})
		}
	})(c)
	if !ran {
		extra = append(extra, ref.KV{K: "wrapped!not-run", V: ""})
	}
	return extra
}

// RouteOpts returns the fox options for a spec (route id annotation + slash option).
func RouteOpts(i int, s RouteSpec) []fox.RouteOption {
	o := []fox.RouteOption{fox.WithAnnotation(fox.VerifRouteID{}, i+1)}
	for _, so := range slashOptLists[s.Slash] {
		if so.ignore {
			o = append(o, fox.WithIgnoreTrailingSlash(so.val))
		} else {
			o = append(o, fox.WithRedirectTrailingSlash(so.val))
		}
	}
	return o
}

// Build registers set on a fresh instrumented router (in the given order). It returns an error
// if the router rejects a route.
func Build(set []RouteSpec, prof Profile) (*Env, error) {
	e := NewEnv(prof)
	e.Set = set
	for i, s := range set {
		rt, err := e.F.Handle(s.Method, s.Pattern, e.Handler(i), RouteOpts(i, s)...)
		if err != nil {
			return nil, fmt.Errorf("route %d (%s): %w", i, s, err)
		}
		e.Routes = append(e.Routes, rt)
	}
	e.BuildRef()
	return e, nil
}

// BuildViaUpdate registers every route of set with another handler and another trailing-slash option first,
// then replaces each with Update by the route the spec describes: the router must behave exactly as if the
// set had been registered directly.
func BuildViaUpdate(set []RouteSpec, prof Profile) (*Env, error) {
	e := NewEnv(prof)
	e.Set = set
	for i, s := range set {
		other := s
		other.Slash = (EffectiveSlash(s.Slash, SlashNone) + 1) % 3
		if _, err := e.F.Handle(s.Method, s.Pattern, e.Handler(len(set)+i), RouteOpts(len(set)+i, other)...); err != nil {
			return nil, fmt.Errorf("route %d (%s): %w", i, s, err)
		}
	}
	for i, s := range set {
		rt, err := e.F.Update(s.Method, s.Pattern, e.Handler(i), RouteOpts(i, s)...)
		if err != nil {
			return nil, fmt.Errorf("update of route %d (%s): %w", i, s, err)
		}
		e.Routes = append(e.Routes, rt)
	}
	e.BuildRef()
	return e, nil
}

// TxnViews are two more views of the same registered set: a read-only transaction on the router,
// and a write transaction on another router that holds the set uncommitted on top of a committed
// tree containing one unrelated one-parameter route under a custom method (so the lookup contexts
// of the committed tree are sized for fewer parameters than the uncommitted routes bind).
type TxnViews struct {
	RO *fox.Txn
	WT *fox.Txn
	WF *fox.Router
	// W0: a write transaction holding the set uncommitted on a router that never had a route (the published
	// tree it started from is empty: no parameters, no depth); SN: a Txn.Snapshot of W0
	W0 *fox.Txn
	SN *fox.Txn
}

func (e *Env) BuildTxnViews() (*TxnViews, error) {
	a := &TxnViews{RO: e.F.Txn(false)}
	e2 := NewEnv(e.Prof)
	a.WF = e2.F
	if _, err := e2.F.Handle("ZZZ", "/zz/{q}", func(fox.Context) {}); err != nil {
		return nil, err
	}
	a.WT = e2.F.Txn(true)
	for i, s := range e.Set {
		if _, err := a.WT.Handle(s.Method, s.Pattern, e2.Handler(i), RouteOpts(i, s)...); err != nil {
			a.WT.Abort()
			a.RO.Abort()
			return nil, fmt.Errorf("write txn rejects route accepted by router: %v", err)
		}
	}
	e3 := NewEnv(e.Prof)
	a.W0 = e3.F.Txn(true)
	for i, s := range e.Set {
		if _, err := a.W0.Handle(s.Method, s.Pattern, e3.Handler(i), RouteOpts(i, s)...); err != nil {
			a.Close()
			return nil, fmt.Errorf("write txn on an empty router rejects route accepted by router: %v", err)
		}
	}
	a.SN = a.W0.Snapshot()
	return a, nil
}

func (a *TxnViews) Close() {
	a.RO.Abort()
	a.WT.Abort()
	if a.SN != nil {
		a.SN.Abort()
	}
	if a.W0 != nil {
		a.W0.Abort()
	}
}

// Disagree observes the lookups of rq through both views and reports the first one that differs from
// the router's own observation o.
func (a *TxnViews) Disagree(rq Req, o *Obs) string {
	var ot Obs
	for i, l := range []*fox.Txn{a.RO, a.WT, a.W0, a.SN} {
		ObserveLookups(l, rq, &ot)
		if ot.RevID != o.RevID || ot.RevTsr != o.RevTsr || ot.LkID != o.LkID || ot.LkTsr != o.LkTsr || !SameKV(ot.LkParams, o.LkParams) || ot.ItID != o.ItID {
			which := [...]string{"read-only Txn", "write Txn holding the same routes uncommitted (on a router with one committed route)",
				"write Txn holding the same routes uncommitted on a router that never had a route", "Snapshot of that write Txn"}[i]
			return fmt.Sprintf("%s answers reverse=(%d,%v) lookup=(%d,%v,[%s]) iter=%d", which, ot.RevID, ot.RevTsr, ot.LkID, ot.LkTsr, KVString(ot.LkParams), ot.ItID)
		}
	}
	return ""
}

// BuildAfterDelete registers set and one extra pattern (first or last, under method), then deletes
// the extra again: the registered set is set, the tree went through an insertion and a removal
// (node splits and merges).
func BuildAfterDelete(set []RouteSpec, method, extra string, first bool, prof Profile) (*Env, error) {
	e := NewEnv(prof)
	e.Set = set
	addExtra := func() error {
		_, err := e.F.Handle(method, extra, e.Handler(len(set)))
		return err
	}
	if first {
		if err := addExtra(); err != nil {
			return nil, err
		}
	}
	for i, s := range set {
		rt, err := e.F.Handle(s.Method, s.Pattern, e.Handler(i), RouteOpts(i, s)...)
		if err != nil {
			return nil, err
		}
		e.Routes = append(e.Routes, rt)
	}
	if !first {
		if err := addExtra(); err != nil {
			return nil, err
		}
	}
	if _, err := e.F.Delete(method, extra); err != nil {
		return nil, err
	}
	e.BuildRef()
	return e, nil
}

// BuildAfterAbort registers set, then registers extra inside a write transaction that is aborted: the
// registered set is set, and nothing of the aborted transaction may show.
func BuildAfterAbort(set []RouteSpec, method, extra string, prof Profile) (*Env, error) {
	e, err := Build(set, prof)
	if err != nil {
		return nil, err
	}
	txn := e.F.Txn(true)
	_, herr := txn.Handle(method, extra, e.Handler(len(set)))
	txn.Abort()
	if herr != nil {
		return nil, herr
	}
	return e, nil
}

// BuildRef (re)builds the reference matchers from e.Set.
func (e *Env) BuildRef() {
	e.probe = nil
	if len(e.Set) > 0 {
		if p, err := ref.Parse(e.Set[0].Pattern, ref.NoLimits); err == nil {
			vals := make([]string, p.NParams)
			for i := range vals {
				vals[i] = "zz"
			}
			h, pa := p.Substitute(vals)
			e.probe = fx.Req(e.Set[0].Method, h, pa)
			e.probeW = fx.NewRW()
		}
	}
	e.Ref = map[string]*ref.Matcher{}
	e.RefLax = map[string]*ref.Matcher{}
	e.RRoutes = nil
	e.Single = nil
	e.Methods = nil
	by := map[string][]*ref.RRoute{}
	for i, s := range e.Set {
		slash := EffectiveSlash(s.Slash, e.Prof.Slash)
		rr := &ref.RRoute{Pat: ref.MustParse(s.Pattern), ID: i + 1, Ignore: slash == SlashIgnore, Redir: slash == SlashRedirect}
		e.RRoutes = append(e.RRoutes, rr)
		e.Single = append(e.Single, ref.NewMatcher([]*ref.RRoute{rr}))
		if _, ok := by[s.Method]; !ok {
			e.Methods = append(e.Methods, s.Method)
		}
		by[s.Method] = append(by[s.Method], rr)
	}
	for m, rs := range by {
		e.Ref[m] = ref.NewMatcher(rs)
		lx := ref.NewMatcher(rs)
		lx.LaxPrefixedCatchAll = true
		e.RefLax[m] = lx
	}
}

// RefLookup returns the reference result for a request in both readings; ok=false means the two
// readings disagree (gray zone: the oracle abstains).
func (e *Env) RefLookup(method, host, path string) (ref.Result, bool) {
	m := e.Ref[method]
	if m == nil {
		return ref.Result{}, true
	}
	a := m.Lookup(host, path)
	b := e.RefLax[method].Lookup(host, path)
	return a, SameResult(a, b)
}

// RefDirect is RefLookup restricted to direct matches.
func (e *Env) RefDirect(method, host, path string) (ref.Result, bool) {
	m := e.Ref[method]
	if m == nil {
		return ref.Result{}, true
	}
	a := m.DirectOnly(host, path)
	b := e.RefLax[method].DirectOnly(host, path)
	return a, SameResult(a, b)
}

func SameResult(a, b ref.Result) bool {
	if (a.Route == nil) != (b.Route == nil) || a.Tsr != b.Tsr {
		return false
	}
	if a.Route != nil && a.Route.ID != b.Route.ID {
		return false
	}
	return SameKV(a.Params, b.Params)
}

func SameKV(a, b []ref.KV) bool {
	if len(a) != len(b) {
		return false
	}
	for i := range a {
		if a[i] != b[i] {
			return false
		}
	}
	return true
}

// Req is one request of the alphabet.
type Req struct {
	Method string `json:"m"`
	Host   string `json:"h,omitempty"`
	Path   string `json:"p"`
	Raw    string `json:"raw,omitempty"` // escaped path when it differs
	Query  string `json:"q,omitempty"`
}

func (r Req) String() string {
	s := r.Method + " " + r.Host + r.Path
	if r.Raw != "" {
		s += " (raw " + r.Raw + ")"
	}
	if r.Query != "" {
		s += "?" + r.Query
	}
	return s
}

func (r Req) HTTP() *http.Request {
	if r.Raw != "" || r.Query != "" {
		return fx.ReqRaw(r.Method, r.Host, r.Path, r.Raw, r.Query)
	}
	return fx.Req(r.Method, r.Host, r.Path)
}

// MatchPath is the path the router matches on (escaped form when present).
func (r Req) MatchPath() string {
	if r.Raw != "" {
		return r.Raw
	}
	return r.Path
}

// Obs is the uniform observation of all entry points for one request.
type Obs struct {
	RevID    int // Router.Reverse: route id (0 none)
	RevTsr   bool
	LkID     int // Router.Lookup
	LkTsr    bool
	LkParams []ref.KV
	LkCtxOK  bool // ContextCloser's Route() equals returned route
	ItID     int  // Iter.Reverse (0 none)
	Status   int
	Location string
	Allow    string
	Cap      Capture
	Panic    string
}

func routeID(r *fox.Route) int {
	if r == nil {
		return 0
	}
	if v, ok := r.Annotation(fox.VerifRouteID{}).(int); ok {
		return v
	}
	return -99
}

// lookuper is the read API shared by *fox.Router and *fox.Txn.
type lookuper interface {
	Reverse(method, host, path string) (*fox.Route, bool)
	Lookup(w fox.ResponseWriter, r *http.Request) (*fox.Route, fox.ContextCloser, bool)
	Iter() fox.Iter
}

// ObserveLookups fills the Reverse/Lookup/Iter.Reverse part of an observation through l.
func ObserveLookups(l lookuper, rq Req, o *Obs) {
	r, tsr := l.Reverse(rq.Method, rq.Host, rq.MatchPath())
	o.RevID, o.RevTsr = routeID(r), tsr
	w := fx.WrapRW(fx.NewRW())
	lr, cc, ltsr := l.Lookup(w, rq.HTTP())
	o.LkID, o.LkTsr = routeID(lr), ltsr
	o.LkParams = nil
	o.LkCtxOK = true
	if cc != nil {
		o.LkParams = collect(cc)
		o.LkCtxOK = cc.Route() == lr
		cc.Close()
	} else if lr != nil {
		o.LkCtxOK = false
	}
	o.ItID = 0
	for _, rt := range l.Iter().Reverse(single(rq.Method), rq.Host, rq.MatchPath()) {
		o.ItID = routeID(rt)
	}
}

func single(m string) func(yield func(string) bool) {
	return func(yield func(string) bool) { yield(m) }
}

// Observe runs the request through every entry point of the router.
func (e *Env) Observe(rq Req) (o Obs) {
	defer func() {
		if p := recover(); p != nil {
			o.Panic = fmt.Sprint(p)
		}
	}()
	ObserveLookups(e.F, rq, &o)
	e.Serve(rq, &o)
	return o
}

// Serve runs only ServeHTTP.
func (e *Env) Serve(rq Req, o *Obs) {
	*e.Cap = Capture{}
	e.W.Reset()
	e.F.ServeHTTP(e.W, rq.HTTP())
	o.Status = e.W.Code
	o.Location = e.W.H.Get("Location")
	o.Allow = e.W.H.Get("Allow")
	o.Cap = *e.Cap
}

func KVString(kv []ref.KV) string {
	parts := make([]string, len(kv))
	for i, p := range kv {
		parts[i] = p.K + "=" + p.V
	}
	return strings.Join(parts, ",")
}

func (o Obs) String() string {
	return fmt.Sprintf("reverse=(%d,tsr=%v) lookup=(%d,tsr=%v,[%s]) iter=%d serve=(status=%d handler=%d [%s] loc=%q allow=%q)",
		o.RevID, o.RevTsr, o.LkID, o.LkTsr, KVString(o.LkParams), o.ItID, o.Status, o.Cap.Handler, KVString(o.Cap.Params), o.Location, o.Allow)
}

// SetString renders a set.
func SetString(set []RouteSpec) string {
	parts := make([]string, len(set))
	for i, s := range set {
		parts[i] = strconv.Itoa(i+1) + ":" + s.String()
	}
	return "{" + strings.Join(parts, ", ") + "}"
}

// ---------------------------------------------------------------------------------------------
// pools and enumeration
// ---------------------------------------------------------------------------------------------

// GenPatterns, GenPaths and Subsets live in package gen (no dependency on the instrumented build).
func GenPatterns(segs []string, maxDepth int, slashVariants bool, prefix string) []string {
	return gen.Patterns(segs, maxDepth, slashVariants, prefix)
}

func GenPaths(segs []string, maxDepth int) []string { return gen.Paths(segs, maxDepth) }

func Subsets(n, k int, fn func(i int, idx []int)) { gen.Subsets(n, k, fn) }

// SortedMethods returns the methods of a set, sorted.
func SortedMethods(set []RouteSpec) []string {
	m := map[string]bool{}
	for _, s := range set {
		m[s.Method] = true
	}
	var out []string
	for k := range m {
		out = append(out, k)
	}
	sort.Strings(out)
	return out
}

// Contenders counts the routes of the method that, taken alone, match the request directly or
// through a trailing-slash adjustment.
func (e *Env) Contenders(method, host, path string) int {
	n := 0
	for i, m := range e.Single {
		if e.Set[i].Method != method {
			continue
		}
		if m.Lookup(host, path).Route != nil {
			n++
		}
	}
	return n
}

// GrayPrefixedCatchAll reports whether, for route index id (1-based) with the reported values, a
// catch-all that follows static text inside its segment captured a value starting with '/'. The
// documentation gives one example of this in suffix position and is silent otherwise: the oracle
// abstains on such matches.
func (e *Env) GrayPrefixedCatchAll(id int, kv []ref.KV) bool {
	if id <= 0 || id > len(e.RRoutes) {
		return false
	}
	pat := e.RRoutes[id-1].Pat
	i := len(pat.HostToks) - countStatic(pat.HostToks)
	prevStatic := false
	for _, t := range pat.PathToks {
		switch t.Kind {
		case ref.Static:
			prevStatic = t.Lit != '/'
		case ref.Param:
			i++
			prevStatic = true
		case ref.CatchAll:
			if prevStatic && i < len(kv) && strings.HasPrefix(kv[i].V, "/") {
				return true
			}
			i++
			prevStatic = true
		}
	}
	return false
}

func countStatic(toks []ref.Token) int {
	n := 0
	for _, t := range toks {
		if t.Kind == ref.Static {
			n++
		}
	}
	return n
}
