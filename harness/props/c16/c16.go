// Package c16: routing a matching request allocates nothing. Built WITHOUT the verif tag and
// without the overlay: it measures production code.
package c16

import (
	"encoding/json"
	"fmt"
	"net/http"
	"net/url"
	"runtime"
	"runtime/debug"
	"strings"
	"testing"

	"github.com/tigerwill90/fox"

	"verifharness/fx"
	"verifharness/gen"
	"verifharness/mc"
	"verifharness/ref"
)

type nullWriter struct{ h http.Header }

func (w *nullWriter) Header() http.Header         { return w.h }
func (w *nullWriter) Write(b []byte) (int, error) { return len(b), nil }
func (w *nullWriter) WriteHeader(int)             {}

var ran bool

var handler fox.HandlerFunc = func(c fox.Context) { ran = true }

type spec struct {
	Pattern string `json:"p"`
	Ignore  bool   `json:"ignore,omitempty"`
	// Adapter: the handler is a net/http handler wrapped with fox.WrapF (1) or fox.WrapH (2); only used on
	// wildcard-free patterns (with parameters the adapters attach them to the request, which allocates by design)
	Adapter int `json:"adapter,omitempty"`
}

var stdHandler = http.HandlerFunc(func(http.ResponseWriter, *http.Request) { ran = true })
var adapted = [...]fox.HandlerFunc{handler, fox.WrapF(stdHandler), fox.WrapH(stdHandler)}

// Case is a replayable measurement: a route set and the served requests measured as one cycle.
type Case struct {
	Set   []spec   `json:"set"`
	Hosts []string `json:"hosts"`
	Paths []string `json:"paths"`
}

type poolDef struct {
	name     string
	patterns []string
	paths    []string
	hosts    []string
	k        int
	always   []string
	adapters bool // every pattern also registered through WrapF and WrapH
}

func fanStatics(n int) []string {
	const letters = "0123456789cdefghijklmnopqrstuvwxyzABCDEFGHIJKLMNOPQRSTUVWXYZ"
	out := make([]string, n)
	for i := 0; i < n; i++ {
		out[i] = string(letters[i])
	}
	return out
}

func pools(quick bool) []poolDef {
	k := 3
	depth := 3
	if quick {
		k = 2
	}
	flat := append([]string{"/"}, gen.Patterns([]string{"a", "ab", "{}", "a{}", "*{}", "a*{}"}, 2, true, "")...)
	deep := gen.Patterns([]string{"ab", "{}", "*{}", "a*{}"}, 3, false, "")
	many := gen.Patterns([]string{"{}", "a"}, 5, false, "")
	var hostPats []string
	for _, h := range []string{"a.b", "{h}.b", "a.{t}", "a{m}.b"} {
		for _, p := range []string{"/", "/a", "/a/", "/{p0}", "/*{c0}", "/{p0}/a"} {
			hostPats = append(hostPats, h+p)
		}
	}
	hostPats = append(hostPats, "/", "/a", "/{p0}", "/*{c0}")
	ps := []poolDef{
		{name: "flat", patterns: flat, paths: gen.Paths([]string{"a", "b", "ab", "aa"}, depth), hosts: []string{""}, k: k},
		{name: "deep", patterns: deep, paths: gen.Paths([]string{"a", "ab", "b"}, 4), hosts: []string{""}, k: k},
		{name: "many-params", patterns: many, paths: gen.Paths([]string{"a", "b"}, 5), hosts: []string{""}, k: 2},
		{name: "host", patterns: hostPats, paths: gen.Paths([]string{"a", "b"}, 2), hosts: []string{"", "a.b", "x.b", "a.x", "ab.b", "a.b:80", "a.b.", "x.b.", "a.b.:80", "[a.b]:80"}, k: k},
	}
	var always []string
	for _, s := range fanStatics(51) {
		always = append(always, "/"+s, "/{p0}/"+s)
	}
	ps = append(ps, poolDef{name: "fan51", patterns: []string{"/a", "/{p0}", "/*{c0}", "/a/{p1}", "/{p0}/a", "/{p0}/{p1}"}, paths: gen.Paths([]string{"a", "b", "0", "Z"}, 2), hosts: []string{""}, k: 2, always: always})
	// fan-tsr: a slash child next to N static siblings with distinct first bytes (N = 31, 32, 40: below, at and above
	// the size of the buffer the compiler gives a small []byte-to-string conversion), reached through the
	// add-a-slash recommendation of an ignoring route
	for _, n := range []int{31, 32, 40} {
		var sib []string
		for _, s := range fanStatics(n) {
			sib = append(sib, "/x"+s)
		}
		ps = append(ps, poolDef{name: fmt.Sprintf("fan-tsr%d", n), patterns: []string{"/x/", "/x/{p0}/", "/x"}, paths: []string{"/x", "/x/", "/x/a", "/x/a/", "/x0", "/xc"}, hosts: []string{""}, k: 2, always: sib})
	}
	// host-fan: N hostname routes with distinct first bytes next to path-only routes, requests whose Host matches
	// none of them (the lookup falls back to the path-only tree)
	for _, n := range []int{31, 32, 36} {
		var hs []string
		for _, ch := range "abcdefghijklmnopqrstuvwxyz0123456789"[:n] {
			hs = append(hs, string(ch)+"x.h/a")
		}
		ps = append(ps, poolDef{name: fmt.Sprintf("host-fan%d", n), patterns: []string{"/a", "/{p0}", "/a/{p1}", "/*{c0}"}, paths: gen.Paths([]string{"a", "b"}, 2), hosts: []string{"", "zz.unknown", "ax.h", "ay.h", "9x.h:80"}, k: 2, always: hs})
	}
	// overlap: at three consecutive levels a static child, a parameter child and a catch-all child
	// (the walk records more skipped alternatives than the tree is deep)
	ps = append(ps, poolDef{name: "overlap", patterns: []string{"/a", "/a/b", "/a/b/c", "/{p0}/b", "/a/{p1}/c", "/a/b/c/d"}, paths: gen.Paths([]string{"a", "b", "c", "z"}, 4), hosts: []string{""}, k: 2,
		always: []string{"/{p0}", "/*{c0}", "/a/{p1}", "/a/*{c1}", "/a/b/{p2}", "/a/b/*{c2}"}})
	// dots: request paths with '.' and '..' segments captured by wildcards (not canonical, yet routed as they are)
	ps = append(ps, poolDef{name: "dots", patterns: []string{"/{p0}/{p1}/", "/*{c0}/", "/a/{p1}/", "/{p0}/a", "/a/*{c1}/b/", "/{p0}/{p1}"}, paths: gen.Paths([]string{"a", ".", "..", "b"}, 3), hosts: []string{""}, k: 2})
	// escaped: request targets whose escaped form differs from the decoded one (RawPath set)
	ps = append(ps, poolDef{name: "escaped", patterns: []string{"/{p0}", "/{p0}/{p1}", "/*{c0}", "/a/{p1}/", "/{p0}/a"}, paths: gen.Paths([]string{"a", "a%2Fb", "%41", "a%3Bb"}, 2), hosts: []string{""}, k: 2})
	// adapters: wildcard-free routes whose handler is a net/http handler wrapped by the library's own adapters
	ps = append(ps, poolDef{name: "adapters", patterns: []string{"/a", "/a/", "/a/b", "/a/b/", "a.b/a", "a.b/a/"}, paths: []string{"/a", "/a/", "/a/b", "/a/b/"}, hosts: []string{"", "a.b"}, k: 2, adapters: true})
	return ps
}

type served struct {
	req  *http.Request
	host string
	path string
}

// build registers the set and returns the router plus the requests the reference says are served.
func build(set []spec, hosts, paths []string) (*fox.Router, []served, error) {
	f, err := fox.New()
	if err != nil {
		return nil, nil, err
	}
	var rr []*ref.RRoute
	for i, s := range set {
		var opts []fox.RouteOption
		if s.Ignore {
			opts = append(opts, fox.WithIgnoreTrailingSlash(true))
		}
		if _, err := f.Handle("GET", s.Pattern, adapted[s.Adapter], opts...); err != nil {
			return nil, nil, err
		}
		rr = append(rr, &ref.RRoute{Pat: ref.MustParse(s.Pattern), ID: i + 1, Ignore: s.Ignore})
	}
	m := ref.NewMatcher(rr)
	lax := ref.NewMatcher(rr)
	lax.LaxPrefixedCatchAll = true
	var out []served
	for _, h := range hosts {
		for _, p := range paths {
			a, b := m.Lookup(h, p), lax.Lookup(h, p)
			if a.Route == nil || b.Route == nil || a.Route.ID != b.Route.ID || a.Tsr != b.Tsr {
				continue
			}
			if a.Tsr && !a.Route.Ignore {
				continue
			}
			rq := &http.Request{Method: "GET", Host: h, URL: &url.URL{Path: p}, Header: http.Header{}}
			if strings.Contains(p, "%") {
				// an escaped request target: the router matches on RawPath
				if dec, err := url.PathUnescape(p); err == nil {
					rq.URL.Path, rq.URL.RawPath = dec, p
				}
			}
			// only requests the implementation really serves with a route handler are measured (whether it
			// should serve them is C01/C08's business)
			ran = false
			f.ServeHTTP(&nullWriter{h: http.Header{}}, rq)
			if !ran {
				continue
			}
			out = append(out, served{req: rq, host: h, path: p})
			if len(out) == 1 {
				// the first served request once more with a query string (the router never needs to parse it)
				q := *rq
				u := *rq.URL
				u.RawQuery = "page=2&sort=asc"
				q.URL = &u
				out = append(out, served{req: &q, host: h, path: p})
			}
		}
	}
	return f, out, nil
}

// measure returns the allocations of one cycle over all served requests (0 expected), re-measured
// when non-zero so that a one-off runtime allocation is not reported.
func measure(f *fox.Router, reqs []served, w *nullWriter) float64 {
	cycle := func() {
		for i := range reqs {
			f.ServeHTTP(w, reqs[i].req)
		}
	}
	cycle()
	cycle()
	a := testing.AllocsPerRun(10, cycle)
	if a == 0 {
		return 0
	}
	min := a
	for i := 0; i < 5; i++ {
		if b := testing.AllocsPerRun(10, cycle); b < min {
			min = b
		}
	}
	return min
}

// measureLookup is measure for the manual routing entry point: Router.Lookup followed by Close of the
// returned context, on every served request.
func measureLookup(f *fox.Router, reqs []served, fw fox.ResponseWriter) float64 {
	cycle := func() {
		for i := range reqs {
			if _, cc, _ := f.Lookup(fw, reqs[i].req); cc != nil {
				cc.Close()
			}
		}
	}
	cycle()
	cycle()
	a := testing.AllocsPerRun(10, cycle)
	if a == 0 {
		return 0
	}
	min := a
	for i := 0; i < 5; i++ {
		if b := testing.AllocsPerRun(10, cycle); b < min {
			min = b
		}
	}
	return min
}

// measureMixed serves every request right after a read-only resolution (Router.Reverse) of the same request,
// which borrows a context from the same pool. It returns the allocations of the cycle beyond those of the
// Reverse calls alone (measured separately), i.e. what routing allocates when read-only lookups run in between.
func measureMixed(f *fox.Router, reqs []served, w *nullWriter) float64 {
	minOf := func(cycle func()) float64 {
		cycle()
		cycle()
		min := testing.AllocsPerRun(10, cycle)
		for i := 0; i < 5 && min != 0; i++ {
			if b := testing.AllocsPerRun(10, cycle); b < min {
				min = b
			}
		}
		return min
	}
	mixed := minOf(func() {
		for i := range reqs {
			f.Reverse(reqs[i].req.Method, reqs[i].host, reqs[i].path)
			f.ServeHTTP(w, reqs[i].req)
		}
	})
	if mixed == 0 {
		return 0
	}
	alone := minOf(func() {
		for i := range reqs {
			f.Reverse(reqs[i].req.Method, reqs[i].host, reqs[i].path)
		}
	})
	return mixed - alone
}

var lookupWriter = fx.WrapRW(fx.NewRW())

func run(c *mc.Ctx, r *mc.Result) {
	runtime.GOMAXPROCS(1)
	debug.SetGCPercent(-1)
	w := &nullWriter{h: http.Header{}}
	for _, pd := range pools(c.Quick()) {
		// specs: pattern x {plain, ignore-trailing-slash}
		var specs []spec
		for _, p := range pd.patterns {
			specs = append(specs, spec{Pattern: p}, spec{Pattern: p, Ignore: true})
			if pd.adapters {
				specs = append(specs, spec{Pattern: p, Adapter: 1}, spec{Pattern: p, Ignore: true, Adapter: 1}, spec{Pattern: p, Adapter: 2}, spec{Pattern: p, Ignore: true, Adapter: 2})
			}
		}
		r.Bounds["pool."+pd.name] = fmt.Sprintf("%d patterns x {plain, ignore-slash}, subsets<=%d (+%d fixed), %d paths x %d hosts; served requests measured one by one and as one interleaved cycle", len(pd.patterns), pd.k, len(pd.always), len(pd.paths), len(pd.hosts))
		stopped := false
		mine := 0
		gen.Subsets(len(specs), pd.k, func(i int, idx []int) {
			if !c.Mine(i) || stopped {
				return
			}
			mine++
			if mine&15 == 0 { // counted per worker: i itself is congruent to the shard number
				if c.Expired() {
					stopped = true
					r.NotExhaustive = append(r.NotExhaustive, fmt.Sprintf("pool %s: time guard at subset #%d", pd.name, i))
					return
				}
				runtime.GC() // GC is off during measurements; collect between sets
			}
			var set []spec
			for j, x := range idx {
				if j > 0 && specs[idx[j-1]].Pattern == specs[x].Pattern {
					return
				}
				set = append(set, specs[x])
			}
			for _, p := range pd.always {
				set = append(set, spec{Pattern: p})
			}
			f, reqs, err := build(set, pd.hosts, pd.paths)
			if err != nil {
				r.Count("sets_rejected_by_router", 1)
				return
			}
			r.Count("sets", 1)
			r.Evaluations += int64(len(reqs))
			if len(reqs) == 0 {
				return
			}
			if len(reqs) >= 2 {
				r.DistinctNontrivial++
			}
			// one interleaved cycle over all served requests (recycled contexts see different requests)
			if a := measure(f, reqs, w); a != 0 {
				// find a culprit: single requests first
				for _, rq := range reqs {
					if b := measure(f, []served{rq}, w); b != 0 {
						r.Violate("alloc", "allocates", fmt.Sprintf("serving %q%q on routes %v allocates %.1f objects per request in steady state", rq.host, rq.path, set, b), Case{Set: set, Hosts: []string{rq.host}, Paths: []string{rq.path}})
						return
					}
				}
				r.Violate("alloc", "allocates-interleaved", fmt.Sprintf("a cycle over the %d served requests of routes %v allocates %.1f objects per cycle in steady state although each request alone allocates nothing", len(reqs), set, a), Case{Set: set, Hosts: pd.hosts, Paths: pd.paths})
			}
			// the same requests routed through Router.Lookup + Close
			if a := measureLookup(f, reqs, lookupWriter); a != 0 {
				r.Violate("alloc", "allocates-lookup", fmt.Sprintf("a cycle of Router.Lookup + Close over the %d served requests of routes %v allocates %.1f objects per cycle in steady state", len(reqs), set, a), Case{Set: set, Hosts: pd.hosts, Paths: pd.paths})
			}
			// the same requests, each served right after a read-only Reverse of it (same context pool)
			if a := measureMixed(f, reqs, w); a > 0 {
				r.Violate("alloc", "allocates-after-readonly-lookup", fmt.Sprintf("a cycle of Router.Reverse + ServeHTTP over the %d served requests of routes %v allocates %.1f objects per cycle more than the Reverse calls alone, in steady state", len(reqs), set, a), Case{Set: set, Hosts: pd.hosts, Paths: pd.paths})
			}
			if i < 2 {
				r.Sample(map[string]any{"pool": pd.name, "set": set, "served_requests": len(reqs)})
			}
		})
	}
}

func init() {
	mc.Register(&mc.Check{
		ID:    "C16",
		Level: "exploration",
		Rule:  "every subset (size<=K) of (pattern, ignore-slash) pairs from generated pools (flat, deep backtracking, many parameters, hostnames, >50 children) on the production build; every request the reference says is served (directly or by ignoring a trailing slash) is served in an interleaved cycle (through ServeHTTP, through Router.Lookup + Close, and through ServeHTTP with a read-only Router.Reverse before each request) measured with testing.AllocsPerRun after warm-up (GC off, GOMAXPROCS 1, allocation-free handler and writer); evaluations = served requests measured; non-trivial = sets with >=2 served requests",
		Assumptions: []string{
			"an allocation is what the Go runtime counts (runtime.MemStats.Mallocs); a non-zero reading is re-measured 5 times and the minimum is reported",
			"built without the verif tag and without the sync overlay: production code is measured",
		},
		Parts: []mc.Part{{Name: "alloc", Run: run, Replay: func(c *mc.Ctx, raw json.RawMessage) string {
			runtime.GOMAXPROCS(1)
			debug.SetGCPercent(-1)
			var cs Case
			if err := json.Unmarshal(raw, &cs); err != nil {
				return "bad case"
			}
			f, reqs, err := build(cs.Set, cs.Hosts, cs.Paths)
			if err != nil || len(reqs) == 0 {
				return ""
			}
			if a := measure(f, reqs, &nullWriter{h: http.Header{}}); a != 0 {
				return fmt.Sprintf("%.1f allocations per cycle over %d served requests of routes %v", a, len(reqs), cs.Set)
			}
			if a := measureLookup(f, reqs, lookupWriter); a != 0 {
				return fmt.Sprintf("%.1f allocations per cycle of Router.Lookup + Close over %d served requests of routes %v", a, len(reqs), cs.Set)
			}
			if a := measureMixed(f, reqs, &nullWriter{h: http.Header{}}); a > 0 {
				return fmt.Sprintf("%.1f allocations per cycle of Router.Reverse + ServeHTTP beyond Reverse alone, over %d served requests of routes %v", a, len(reqs), cs.Set)
			}
			return ""
		}}},
	})
}
