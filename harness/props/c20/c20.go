// Package c20: the Logger middleware reports what actually happened.
package c20

import (
	"context"
	"encoding/json"
	"errors"
	"fmt"
	"log/slog"
	"net"
	"net/netip"
	"strconv"
	"strings"

	"github.com/tigerwill90/fox"

	vs "github.com/tigerwill90/fox/verifsync"

	"verifharness/fx"
	"verifharness/mc"
)

type rec struct {
	level slog.Level
	msg   string
	attrs map[string]string
	seq   int
}

type capture struct {
	recs []rec
	seq  *int
	// the handler enables its levels at run time (like a slog.LevelVar raised after
	// start-up): nothing is enabled while the middleware, the router and the routes are built
	live bool
}

func (c *capture) Enabled(context.Context, slog.Level) bool { return c.live }
func (c *capture) Handle(_ context.Context, r slog.Record) error {
	*c.seq++
	m := map[string]string{}
	r.Attrs(func(a slog.Attr) bool { m[a.Key] = a.Value.String(); return true })
	c.recs = append(c.recs, rec{r.Level, r.Message, m, *c.seq})
	return nil
}
func (c *capture) WithAttrs([]slog.Attr) slog.Handler { return c }
func (c *capture) WithGroup(string) slog.Handler      { return c }

// flushingRW is an underlying writer with a native FlushError (like net/http's): a flush sends the
// pending header.
type flushingRW struct{ *fx.RW }

func (f flushingRW) FlushError() error {
	if f.RW.Code == 0 {
		f.RW.Code = 200
	}
	return nil
}

type resolver struct {
	ip   string
	fail bool
}

func (r resolver) ClientIP(fox.Context) (*net.IPAddr, error) {
	if r.fail {
		if r.ip != "" {
			// a failing resolver that also hands back the candidate it rejected: the error decides
			return &net.IPAddr{IP: net.ParseIP(r.ip)}, errors.New("candidate rejected")
		}
		return nil, errors.New("cannot resolve")
	}
	return &net.IPAddr{IP: net.ParseIP(r.ip)}, nil
}

// global resolver configurations
const (
	gNone = iota
	gOK
	gFail
	nGlobals
)

var gNames = [...]string{"no global resolver", "global resolver ok (1.1.1.1)", "global resolver failing"}

// request kinds
const (
	kPlain    = iota // route inheriting the global resolver
	kOwn             // route with its own succeeding resolver (2.2.2.2)
	kOwnFail         // route with its own failing resolver
	kOwnNil          // route with WithClientIPResolver(nil)
	kRedirect        // trailing-slash redirect handler
	kNotFound
	kNoMethod
	kOptions
	kEncSlash  // route(inherits) reached by a target with an escaped slash (RawPath set)
	kEncByte   // route(inherits) reached by a target with a needlessly escaped byte (RawPath set)
	kQuery     // route(inherits) with a query string
	kMounted   // route(inherits) whose handler delegates to a second router, passing its own writer
	kSetWriter // route(inherits) whose handler attaches another ResponseWriter (Context.SetWriter) before answering
	kOwnZero   // route whose own resolver succeeds with a zero net.IPAddr (it renders as the empty string)
	nKinds
)

// rawTargets: the escaped form of the request path for the kinds that have one.
var rawTargets = map[int]string{kEncSlash: "/enc/a%2Fb", kEncByte: "/enc/%41lice"}

func isRouteKind(k int) bool { return k <= kOwnNil || k >= kEncSlash }

// zeroResolver succeeds with the zero address: what it returned is what is reported, resolution did not fail.
type zeroResolver struct{}

func (zeroResolver) ClientIP(fox.Context) (*net.IPAddr, error) { return &net.IPAddr{}, nil }

var kNames = [...]string{"route(inherits)", "route(own resolver ok)", "route(own resolver failing)", "route(resolver nil)", "redirect", "404", "405", "OPTIONS", "route(inherits) escaped slash", "route(inherits) escaped byte", "route(inherits) with query", "route(inherits) delegating to a mounted router", "route(inherits) attaching another writer (SetWriter)", "route(own resolver succeeding with a zero address)"}

// behaviours of the route handler
type behaviour struct {
	Kind   string `json:"b"` // status | implicit | nothing | redirect-loc | redirect-noloc | panic
	Status int    `json:"status,omitempty"`
}

type world struct {
	f, plain   *fox.Router // with and without the Logger
	cap        *capture
	seq        int
	handlerEnd int
	beh        behaviour
	curRW      *fx.RW // the writer handed to ServeHTTP for the request being served
}

func newWorld(g int) *world {
	w := &world{}
	w.cap = &capture{seq: &w.seq}
	h := func(c fox.Context) {
		switch w.beh.Kind {
		case "status":
			c.Writer().WriteHeader(w.beh.Status)
		case "implicit":
			c.Writer().Write([]byte("hello"))
		case "nothing":
		case "redirect-loc":
			c.SetHeader("Location", "/elsewhere")
			c.Writer().WriteHeader(w.beh.Status)
		case "redirect-noloc":
			c.Writer().WriteHeader(w.beh.Status)
		case "flush-then-status":
			c.Writer().FlushError()
			c.Writer().WriteHeader(w.beh.Status)
		case "panic":
			w.seq++
			w.handlerEnd = w.seq
			panic("boom")
		}
		w.seq++
		w.handlerEnd = w.seq
	}
	build := func(withLogger bool) *fox.Router {
		var opts []fox.GlobalOption
		if withLogger {
			opts = append(opts, fox.WithMiddleware(fox.LoggerWithHandler(w.cap)))
		}
		switch g {
		case gOK:
			opts = append(opts, fox.WithClientIPResolver(resolver{ip: "1.1.1.1"}))
		case gFail:
			opts = append(opts, fox.WithClientIPResolver(resolver{fail: true}))
		}
		opts = append(opts, fox.WithNoMethod(true), fox.WithAutoOptions(true))
		f, err := fox.New(opts...)
		if err != nil {
			panic(err)
		}
		must := func(_ *fox.Route, err error) {
			if err != nil {
				panic(err)
			}
		}
		must(f.Handle("GET", "/plain", h))
		must(f.Handle("GET", "/own", h, fox.WithClientIPResolver(resolver{ip: "2.2.2.2"})))
		must(f.Handle("GET", "/ownfail", h, fox.WithClientIPResolver(resolver{fail: true, ip: "203.0.113.7"})))
		must(f.Handle("GET", "/ownnil", h, fox.WithClientIPResolver(nil)))
		must(f.Handle("GET", "/ownzero", h, fox.WithClientIPResolver(zeroResolver{})))
		must(f.Handle("GET", "/redir/", h, fox.WithRedirectTrailingSlash(true)))
		must(f.Handle("GET", "/enc/{x}", h))
		// a second router mounted below a route: it is handed the outer context's writer
		inner, err := fox.New()
		if err != nil {
			panic(err)
		}
		must(inner.Handle("GET", "/mnt/{x}", h))
		must(f.Handle("GET", "/mnt/{x}", func(c fox.Context) { inner.ServeHTTP(c.Writer(), c.Request()) }))
		// the handler attaches a writer of its own (with its own status accounting) on top of the connection, as a
		// compressing or buffering wrapper does: what is recorded is what that writer recorded
		must(f.Handle("GET", "/sw/{x}", func(c fox.Context) {
			c.SetWriter(fx.WrapRW(w.curRW))
			h(c)
		}))
		return f
	}
	w.f = build(true)
	w.plain = build(false)
	return w
}

// reqHosts: the Host of the request, chosen with the remote address: the record carries it as it came (port, IPv6
// literal, trailing dot, upper case)
var reqHosts = []string{"example.test", "example.test:8080", "[::1]:8080", "example.test.", "EXAMPLE.test:80"}

var remotes = []string{"192.0.2.7:4711", "[2001:db8::7]:4711", "garbage", "[fe80::1%eth0]:4711", "[::ffff:192.0.2.9]:80"}

func request(kind int, remote string) (string, string) {
	switch kind {
	case kPlain:
		return "GET", "/plain"
	case kOwn:
		return "GET", "/own"
	case kOwnFail:
		return "GET", "/ownfail"
	case kOwnNil:
		return "GET", "/ownnil"
	case kRedirect:
		return "GET", "/redir"
	case kNotFound:
		return "GET", "/nothing"
	case kNoMethod:
		return "POST", "/plain"
	case kEncSlash:
		return "GET", "/enc/a/b"
	case kEncByte:
		return "GET", "/enc/Alice"
	case kQuery:
		return "GET", "/plain"
	case kMounted:
		return "GET", "/mnt/v"
	case kSetWriter:
		return "GET", "/sw/v"
	case kOwnZero:
		return "GET", "/ownzero"
	}
	return "OPTIONS", "/plain"
}

// Step is one request of a sequence.
type Step struct {
	Kind   int       `json:"kind"`
	Beh    behaviour `json:"beh"`
	Remote int       `json:"remote"`
}

// Case is replayable: a global configuration and a request sequence (the last one is checked, but
// every one is).
type Case struct {
	Global int    `json:"global"`
	Steps  []Step `json:"steps"`
}

func expectedMsg(g, kind int, remote string) (string, bool) {
	remoteIP := func() (string, bool) {
		host, _, err := net.SplitHostPort(remote)
		if err != nil {
			return "", false // garbage: the statement does not say
		}
		a, err := netip.ParseAddr(host)
		if err != nil {
			return "", false
		}
		// the remote address as net.IPAddr renders it (zone kept, IPv4-mapped shown as IPv4)
		return (&net.IPAddr{IP: net.IP(a.WithZone("").AsSlice()), Zone: a.Zone()}).String(), true
	}
	res := g // which resolver applies
	switch kind {
	case kOwn:
		return "2.2.2.2", true
	case kOwnFail:
		return "unknown", true
	case kOwnNil:
		return remoteIP()
	case kOwnZero:
		return (&net.IPAddr{}).String(), true
	}
	switch res {
	case gOK:
		return "1.1.1.1", true
	case gFail:
		return "unknown", true
	}
	return remoteIP()
}

func level(status int) (slog.Level, bool) {
	switch {
	case status >= 200 && status < 300:
		return slog.LevelInfo, true
	case status >= 300 && status < 400:
		return slog.LevelDebug, true
	case status >= 400 && status < 500:
		return slog.LevelWarn, true
	case status >= 500 && status < 600:
		return slog.LevelError, true
	}
	return 0, false
}

// evalStep issues one request on the world and checks the record.
func (w *world) evalStep(g int, st Step) (string, string) {
	method, path := request(st.Kind, remotes[st.Remote])
	w.beh = st.Beh
	desc := fmt.Sprintf("%s, request %s %s (%s, handler behaviour %+v, remote %s)", gNames[g], method, path, kNames[st.Kind], st.Beh, remotes[st.Remote])
	serve := func(f *fox.Router) (rw *fx.RW, pv any) {
		host := reqHosts[st.Remote%len(reqHosts)]
		r := fx.Req(method, host, path)
		if raw, ok := rawTargets[st.Kind]; ok {
			r = fx.ReqRaw(method, host, path, raw, "")
		}
		if st.Kind == kQuery {
			r = fx.ReqRaw(method, host, path, "", "q=1&path=/other")
		}
		r.RemoteAddr = remotes[st.Remote]
		rw = fx.NewRW()
		w.curRW = rw
		defer func() { pv = recover() }()
		w.cap.live = true
		if st.Beh.Kind == "flush-then-status" {
			f.ServeHTTP(flushingRW{rw}, r)
		} else {
			f.ServeHTTP(rw, r)
		}
		return
	}
	w.cap.recs = w.cap.recs[:0]
	w.handlerEnd = 0
	rw, pv := serve(w.f)
	handlerEnd := w.handlerEnd
	rw0, pv0 := serve(w.plain)
	// the middleware never alters the response or a panic passing through it
	if fmt.Sprint(pv) != fmt.Sprint(pv0) {
		return "panic-altered", fmt.Sprintf("panic value with Logger %v, without %v: %s", pv, pv0, desc)
	}
	if rw.Code != rw0.Code || string(rw.Body) != string(rw0.Body) || fmt.Sprint(rw.H) != fmt.Sprint(rw0.H) {
		return "response-altered", fmt.Sprintf("response with Logger (%d, %q, %v) differs from the one without (%d, %q, %v): %s", rw.Code, rw.Body, rw.H, rw0.Code, rw0.Body, rw0.H, desc)
	}
	isRoute := isRouteKind(st.Kind)
	if pv != nil {
		if len(w.cap.recs) != 0 {
			return "record-on-panic", fmt.Sprintf("a record was emitted although the handler panicked: %s", desc)
		}
		return "", ""
	}
	if len(w.cap.recs) != 1 {
		return "record-count", fmt.Sprintf("%d records emitted, want exactly 1: %s", len(w.cap.recs), desc)
	}
	r := w.cap.recs[0]
	if isRoute && r.seq <= handlerEnd {
		return "record-before-handler-end", fmt.Sprintf("the record was emitted before the handler returned: %s", desc)
	}
	// status actually recorded = what the client got (implicit 200 when nothing was written)
	wantStatus := rw.Code
	if wantStatus == 0 {
		wantStatus = 200
	}
	if isRoute && (st.Beh.Kind == "status" || st.Beh.Kind == "redirect-loc") && st.Beh.Status < 200 && st.Beh.Status != 101 {
		wantStatus = 200 // informational only: the final status is still the default
	}
	if r.attrs["status"] != strconv.Itoa(wantStatus) {
		return "wrong-status", fmt.Sprintf("record status=%s, response status %d: %s", r.attrs["status"], wantStatus, desc)
	}
	if r.attrs["method"] != method || r.attrs["host"] != reqHosts[st.Remote%len(reqHosts)] || r.attrs["path"] != path {
		return "wrong-request-line", fmt.Sprintf("record method=%s host=%s path=%s: %s", r.attrs["method"], r.attrs["host"], r.attrs["path"], desc)
	}
	if wantMsg, ok := expectedMsg(g, st.Kind, remotes[st.Remote]); ok && r.msg != wantMsg {
		return "wrong-client", fmt.Sprintf("record message %q, want %q: %s", r.msg, wantMsg, desc)
	}
	if lvl, ok := level(wantStatus); ok {
		if r.level != lvl {
			return "wrong-level", fmt.Sprintf("record level %v for status %d, want %v: %s", r.level, wantStatus, lvl, desc)
		}
		loc, has := r.attrs["location"]
		wantLoc := rw.H.Get("Location")
		if lvl == slog.LevelDebug {
			if (wantLoc != "") != has || loc != wantLoc {
				return "wrong-location", fmt.Sprintf("record location=%q (present=%v), response Location %q: %s", loc, has, wantLoc, desc)
			}
		} else if has {
			return "wrong-location", fmt.Sprintf("record carries a location attribute for status %d: %s", wantStatus, desc)
		}
	}
	return "", ""
}

func behaviours(quick bool) []behaviour {
	out := []behaviour{{Kind: "implicit"}, {Kind: "nothing"}, {Kind: "panic"}, {Kind: "flush-then-status", Status: 500}, {Kind: "flush-then-status", Status: 302},
		{Kind: "redirect-loc", Status: 301}, {Kind: "redirect-noloc", Status: 302}, {Kind: "redirect-loc", Status: 308}, {Kind: "redirect-noloc", Status: 399}}
	for s := 100; s <= 999; s++ {
		out = append(out, behaviour{Kind: "status", Status: s})
		// a Location header next to every status (it belongs in the record for 3xx only)
		out = append(out, behaviour{Kind: "redirect-loc", Status: s})
	}
	return out
}

func run(c *mc.Ctx, r *mc.Result) {
	behs := behaviours(c.Quick())
	few := []behaviour{{Kind: "status", Status: 204}, {Kind: "status", Status: 503}, {Kind: "nothing"}, {Kind: "redirect-loc", Status: 301}, {Kind: "flush-then-status", Status: 500}}
	r.Bounds["space"] = fmt.Sprintf("%d global resolver configurations x ordered pairs (previous request kind, request kind) over %d kinds x %d remote addresses; the route handler sweeps %d behaviours (every status 100..999 with and without a Location header, implicit 200, nothing, redirects with/without Location, panic); requests are issued in sequence on one router with a deterministic context pool", nGlobals, nKinds, len(remotes), len(behs))
	idx := 0
	for g := 0; g < nGlobals; g++ {
		for prev := -1; prev < nKinds; prev++ {
			for kind := 0; kind < nKinds; kind++ {
				idx++
				if !c.Mine(idx) {
					continue
				}
				bl := few
				if prev == -1 && kind == kPlain {
					bl = behs
				}
				if !isRouteKind(kind) {
					bl = few[:1]
				}
				for _, b := range bl {
					for ri := range remotes {
						w := newWorld(g)
						var steps []Step
						if prev >= 0 {
							steps = append(steps, Step{Kind: prev, Beh: behaviour{Kind: "status", Status: 200}, Remote: 0})
						}
						steps = append(steps, Step{Kind: kind, Beh: b, Remote: ri})
						for _, st := range steps {
							class, msg := w.evalStep(g, st)
							r.Evaluations++
							if class != "" {
								r.Violate("records", class, msg, Case{Global: g, Steps: steps})
								break
							}
						}
						if prev >= 0 || b.Kind != "status" {
							r.DistinctNontrivial++
						}
					}
				}
			}
		}
	}
	if c.Shard == 0 {
		r.Sample(Case{Global: gOK, Steps: []Step{{Kind: kOwn, Beh: behaviour{Kind: "status", Status: 200}}, {Kind: kRedirect, Beh: behaviour{Kind: "nothing"}}}})
	}
}

// ---------------------------------------------------------------------------------------------
// concurrent: two requests inside the same Logger instance
// ---------------------------------------------------------------------------------------------

type concReq struct {
	method, host, path, remote string
	status                     int
	location                   string
}

var concReqs = []concReq{
	{"GET", "a.example", "/a", "10.0.0.1:1111", 201, ""},
	{"POST", "b.example", "/b", "10.0.0.2:2222", 503, ""},
	{"GET", "c.example", "/r", "10.0.0.3:3333", 302, "/elsewhere"},
	{"PUT", "d.example", "/nf", "10.0.0.4:4444", 404, ""},
}

// stepCapture is a slog handler with scheduling points in the calls the Logger makes.
type stepCapture struct{ recs *[]rec }

func (c stepCapture) Enabled(context.Context, slog.Level) bool { vs.Step("slog.Enabled"); return true }
func (c stepCapture) Handle(_ context.Context, r slog.Record) error {
	vs.Step("slog.Handle")
	m := map[string]string{}
	r.Attrs(func(a slog.Attr) bool {
		if a.Key != "latency" { // wall-clock dependent
			m[a.Key] = a.Value.String()
		}
		return true
	})
	*c.recs = append(*c.recs, rec{level: r.Level, msg: r.Message, attrs: m})
	return nil
}
func (c stepCapture) WithAttrs([]slog.Attr) slog.Handler { return c }
func (c stepCapture) WithGroup(string) slog.Handler      { return c }

func concScenario(i, j int) *mc.Scenario {
	a, b := concReqs[i], concReqs[j]
	return &mc.Scenario{
		Name:     fmt.Sprintf("logger %s %s%s || %s %s%s", a.method, a.host, a.path, b.method, b.host, b.path),
		Describe: "two threads each serve one request through the same Logger middleware; scheduling points in the client-IP resolver, in the slog handler's Enabled and Handle and inside the route handler",
		Build: func() *mc.Instance {
			var recs []rec
			res := fox.ClientIPResolverFunc(func(c fox.Context) (*net.IPAddr, error) {
				vs.Step("resolver")
				h, _, _ := net.SplitHostPort(c.Request().RemoteAddr)
				return &net.IPAddr{IP: net.ParseIP(h)}, nil
			})
			f, err := fox.New(fox.WithClientIPResolver(res), fox.WithMiddleware(fox.LoggerWithHandler(stepCapture{&recs})))
			if err != nil {
				panic(err)
			}
			for _, q := range concReqs[:3] {
				q := q
				f.MustHandle(q.method, q.host+q.path, func(c fox.Context) {
					vs.Step("handler")
					if q.location != "" {
						c.SetHeader("Location", q.location)
					}
					c.Writer().WriteHeader(q.status)
				})
			}
			serve := func(q concReq) func() {
				return func() {
					rq := fx.Req(q.method, q.host, q.path)
					rq.RemoteAddr = q.remote
					f.ServeHTTP(fx.NewRW(), rq)
				}
			}
			return &mc.Instance{
				Bodies: []func(){serve(a), serve(b)},
				Check: func(x *mc.Exec) (string, string, string) {
					if x.S.Deadlock {
						return "deadlock", "deadlock", x.S.DeadInfo
					}
					for t := 0; t < 2; t++ {
						if pv, stk := x.S.PanicOf(t); pv != nil {
							return "panic", "panic", fmt.Sprintf("%v\n%s", pv, mc.NormStack(stk, 10))
						}
					}
					if len(recs) != 2 {
						return "count", "record-count", fmt.Sprintf("%d records for 2 requests", len(recs))
					}
					order := recs[0].msg
					for _, q := range []concReq{a, b} {
						ip, _, _ := net.SplitHostPort(q.remote)
						n := 0
						for _, rc := range recs {
							if rc.msg != ip {
								continue
							}
							n++
							lvl, _ := level(q.status)
							if rc.attrs["status"] != fmt.Sprint(q.status) || rc.attrs["method"] != q.method || rc.attrs["host"] != q.host || rc.attrs["path"] != q.path || rc.level != lvl || rc.attrs["location"] != q.location {
								return "mixed", "record-mixes-requests", fmt.Sprintf("the record of the request from %s (%s %s%s -> %d) carries level=%v attrs=%v", ip, q.method, q.host, q.path, q.status, rc.level, rc.attrs)
							}
						}
						if n != 1 {
							return "count", "record-count", fmt.Sprintf("%d records carry the client address %s, want 1 (records: %v)", n, ip, recs)
						}
					}
					return "ok first=" + order, "", ""
				},
			}
		},
	}
}

func concScenarios() []*mc.Scenario {
	var out []*mc.Scenario
	for i := range concReqs {
		for j := i + 1; j < len(concReqs); j++ {
			out = append(out, concScenario(i, j))
		}
	}
	return out
}

func init() {
	mc.Register(&mc.Check{
		ID:    "C20",
		Level: "exploration",
		Rule: "complete product of global resolver configuration x (previous request kind, request kind) x remote address, with the route handler sweeping every status 100..999 and the other behaviours; each request is served with and without the Logger (differential) and the single captured record is compared with a record model; " +
			"plus all interleavings up to a preemption bound of two requests inside one Logger instance (scheduling points in the resolver, the slog handler and the route handler): every record must describe one request only; non-trivial = the request follows another request on the recycled context, or the behaviour is not a plain status",
		Assumptions: []string{
			"level is only judged for statuses 200..599; for an unparsable remote address only 'exactly one record with the right status and level' is demanded",
			"the resolver in force is the route's inside route handlers and the router-wide one in every other handler",
		},
		Parts: []mc.Part{{Name: "records", Run: func(c *mc.Ctx, r *mc.Result) {
			un := mc.DeterministicPools()
			defer un()
			run(c, r)
		}, Replay: func(c *mc.Ctx, raw json.RawMessage) string {
			un := mc.DeterministicPools()
			defer un()
			var cs Case
			if err := json.Unmarshal(raw, &cs); err != nil {
				return "bad case"
			}
			w := newWorld(cs.Global)
			for _, st := range cs.Steps {
				if _, msg := w.evalStep(cs.Global, st); msg != "" {
					return msg
				}
			}
			return ""
		}}, {Name: "concurrent", Run: func(c *mc.Ctx, r *mc.Result) {
			bound := -1 // thorough: every interleaving
			if c.Quick() {
				bound = 2
			}
			for _, sc := range concScenarios() {
				mc.Explore(c, r, "concurrent", sc, mc.ExploreOpts{Bound: bound})
			}
			mc.CountNontrivial(r)
		}, Replay: func(c *mc.Ctx, raw json.RawMessage) string { return mc.ReplaySched(concScenarios(), raw) }}},
	})
}

var _ = strings.Join
