// Package c02: registered routes behave as an exact map keyed by (method, pattern).
package c02

import (
	"encoding/json"
	"fmt"
	"runtime"
	"strings"

	"github.com/tigerwill90/fox"

	"verifharness/hist"
	"verifharness/mc"
)

// PoolFor returns the alphabet for a tier.
func PoolFor(quick bool) *hist.Pool {
	p := &hist.Pool{
		Methods:    []string{"GET", "POST", "FOO"},
		Patterns:   []string{"/a", "/ab", "/a/b", "/a/{x}", "/a/{y}", "/a/*{w}", "/a/*{w}/b", "a.b/c", "a.{h}/c", "{h}.b/c"},
		BadMethod:  "get",
		BadPattern: "/a/{x",
	}
	if quick {
		p.Methods = []string{"GET", "FOO"}
	}
	return p
}

// SiblingPool is a second alphabet: many single-segment siblings under one node (children slices
// with spare capacity, re-sorting on insertion), one method, explored with more live routes.
func SiblingPool() *hist.Pool {
	return &hist.Pool{
		Methods:    []string{"GET"},
		Patterns:   []string{"/a", "/b", "/c", "/d", "/e", "/{x}", "/*{w}"},
		BadMethod:  "get",
		BadPattern: "/{x",
	}
}

// MethodPool: few patterns under several custom methods (the method roots slice grows, shrinks and
// shifts; Truncate with several methods).
func MethodPool() *hist.Pool {
	return &hist.Pool{
		Methods:    []string{"GET", "FOO", "BAR", "BAZ"},
		Patterns:   []string{"/a", "/a/b"},
		BadMethod:  "get",
		BadPattern: "/{x",
	}
}

// NestPool: one method, a leaf with a single radix child that itself carries static, parameter and
// catch-all children (the node merges of Delete), explored with more live routes.
func NestPool() *hist.Pool {
	return &hist.Pool{
		Methods:    []string{"GET"},
		Patterns:   []string{"/a", "/a/", "/a/b", "/a/{x}", "/a/*{w}", "/a/b/*{w}", "/a/b/c"},
		BadMethod:  "get",
		BadPattern: "/{x",
	}
}

// Case is a replayable C02 case: an operation list whose last operation is the one checked.
type Case struct {
	Quick    bool      `json:"quick"`
	Siblings bool      `json:"siblings,omitempty"`
	Pool     string    `json:"pool,omitempty"`
	Path     []hist.Op `json:"path"`
}

func render(path []hist.Op) string {
	parts := make([]string, len(path))
	for i, o := range path {
		parts[i] = o.String()
	}
	return strings.Join(parts, " ; ")
}

// Step replays from.Path, applies op, checks everything C02 states, and returns the successor.
func Step(p *hist.Pool, from *hist.State, op hist.Op) (*hist.State, []hist.Violation) {
	var viols []hist.Violation
	full := append(append([]hist.Op{}, from.Path...), op)
	bad := func(class, format string, a ...any) {
		viols = append(viols, hist.Violation{Class: class, Path: full, Msg: fmt.Sprintf(format, a...) + "\n    history: " + render(full) + "\n    model before: " + from.Model.String()})
	}
	f := hist.Replay(from.Path)
	wantOut, after := hist.ModelApply(from.Model, op)
	inTxn := func(txn *fox.Txn) {
		// the transaction reads its own writes ...
		if got, want := hist.Observe(txn, p), hist.ExpectObservation(after, p); got != want {
			bad("txn-view", "inside the transaction, after %s, the transaction's reads are\n%s    model says\n%s", op, indent(got), indent(want))
		} else if msg := hist.PrefixCheck(txn, after, p); msg != "" {
			bad("txn-view", "inside the transaction after %s: %s", op, msg)
		}
		// ... and the router still shows the state before
		if got, want := hist.Observe(f, p), hist.ExpectObservation(from.Model, p); got != want {
			bad("uncommitted-visible", "while the transaction is open after %s, the router's reads are\n%s    model says\n%s", op, indent(got), indent(want))
		}
	}
	out, panicked := hist.Apply(f, op, inTxn)
	if panicked != "" {
		bad("panic", "%s panicked: %s", op, panicked)
		return nil, viols
	}
	if !sameOut(out, wantOut) {
		cls := "wrong-result"
		if out.Err == "conflict" || wantOut.Err == "conflict" {
			cls = "wrong-conflict"
		}
		bad(cls, "%s returned %s, model says %s", op, out, wantOut)
	}
	want := from.Model
	if op.Mode != hist.TxnAbort {
		want = after
	}
	if got, exp := hist.Observe(f, p), hist.ExpectObservation(want, p); got != exp {
		cls := "wrong-state"
		if wantOut.Err != "" || op.Mode == hist.TxnAbort {
			cls = "failed-call-changed-state"
		}
		if strings.SplitN(got, "\n", 2)[1] == strings.SplitN(exp, "\n", 2)[1] {
			cls = "wrong-len"
		}
		bad(cls, "after %s the router's reads are\n%s    model says\n%s", op, indent(got), indent(exp))
	} else if msg := hist.PrefixCheck(f, want, p); msg != "" {
		bad("wrong-prefix", "after %s: %s", op, msg)
	}
	ro := f.Txn(false)
	if got, exp := hist.Observe(ro, p), hist.ExpectObservation(want, p); got != exp {
		cls := "wrong-state-rotxn"
		if strings.SplitN(got, "\n", 2)[1] == strings.SplitN(exp, "\n", 2)[1] {
			cls = "wrong-len"
		}
		bad(cls, "after %s a read-only transaction reads\n%s    model says\n%s", op, indent(got), indent(exp))
	}
	ro.Abort()
	if len(viols) > 0 {
		// do not explore beyond a violating transition: its successor is not a state of the model
		return nil, viols
	}
	return &hist.State{Path: full, Model: want, Shape: fox.VerifShape(f), Depth: from.Depth + 1}, viols
}

func sameOut(a, b hist.Outcome) bool {
	return a.String() == b.String()
}

func indent(s string) string {
	return "      " + strings.ReplaceAll(strings.TrimRight(s, "\n"), "\n", "\n      ") + "\n"
}

func run(c *mc.Ctx, r *mc.Result) {
	if c.Quick() {
		runBFS(c, r, "prefixes", PoolFor(true), 2, false)
	} else {
		// two methods with up to 3 live routes expanded, and all three methods with up to 2
		runBFS(c, r, "prefixes", PoolFor(true), 3, false)
		runBFS(c, r, "prefixes-3-methods", PoolFor(false), 2, false)
	}
	sib := 5
	if !c.Quick() {
		sib = 6
	}
	runBFS(c, r, "siblings", SiblingPool(), sib, true)
	runBFS(c, r, "methods", MethodPool(), 3, false)
	runBFS(c, r, "nested", NestPool(), sib-1, false)
	runFan(c, r)
}

// runFan: nodes with 48..53 children (the linear/binary search switch in getEdge/updateEdge is at
// 50): every mutating operation on the first, a middle and the last sibling, and insertion of a new
// sibling sorting first / in the middle / last, directly, committed and aborted; after each, the
// complete observation is compared with the map model.
func runFan(c *mc.Ctx, r *mc.Result) {
	const letters = "0123456789ABCDEFGHIJKLMNOPQRSTUVWXYZabcdefghijklmnopqrstuvwxyz"
	r.Bounds["fan"] = "48..53 static siblings under '/' and under '/{p}/' x {Handle new first/middle/last, Update/Delete first/middle/last, UpdateRoute, HandleRoute} x {direct, committed txn, aborted txn}"
	for _, prefix := range []string{"/", "/{p}/", "h.x/"} {
		for n := 48; n <= 53; n++ {
			// siblings use every other letter so that new ones can sort first, in the middle and last
			var pats []string
			for i := 0; i < n; i++ {
				pats = append(pats, prefix+string(letters[1+i]))
			}
			newOnes := []string{prefix + string(letters[0]), prefix + string(letters[1+n/2]) + "x", prefix + string(letters[1+n])}
			pool := &hist.Pool{Methods: []string{"GET"}, Patterns: append(append([]string{}, pats...), newOnes...)}
			var seedPath []hist.Op
			for _, p := range pats {
				seedPath = append(seedPath, hist.Op{Kind: hist.Handle, Method: "GET", Pattern: p})
			}
			from := &hist.State{Path: seedPath, Model: hist.ModelOf(seedPath)}
			targets := []string{pats[0], pats[n/2], pats[n-1]}
			var ops []hist.Op
			for mode := 0; mode < 3; mode++ {
				for _, p := range newOnes {
					ops = append(ops, hist.Op{Kind: hist.Handle, Method: "GET", Pattern: p, Mode: mode}, hist.Op{Kind: hist.HandleRoute, Method: "GET", Pattern: p, Mode: mode}, hist.Op{Kind: hist.Delete, Method: "GET", Pattern: p, Mode: mode})
				}
				for _, p := range targets {
					ops = append(ops, hist.Op{Kind: hist.Update, Method: "GET", Pattern: p, Mode: mode}, hist.Op{Kind: hist.UpdateRoute, Method: "GET", Pattern: p, Mode: mode}, hist.Op{Kind: hist.Delete, Method: "GET", Pattern: p, Mode: mode}, hist.Op{Kind: hist.Handle, Method: "GET", Pattern: p, Mode: mode})
				}
			}
			for _, op := range ops {
				next, viols := Step(pool, from, op)
				r.Evaluations++
				r.Transitions++
				r.TracesValidated++
				for _, v := range viols {
					r.Violate("bfs", v.Class, fmt.Sprintf("[%d siblings under %q] ", n, prefix)+v.Msg, Case{Pool: "fan", Path: v.Path})
				}
				// one more step from the successor: the operation applied to a tree that just changed
				if next != nil && len(viols) == 0 {
					for _, op2 := range ops[:7] {
						_, v2 := Step(pool, next, op2)
						r.Evaluations++
						r.Transitions++
						for _, v := range v2 {
							r.Violate("bfs", v.Class, fmt.Sprintf("[%d siblings under %q] ", n, prefix)+v.Msg, Case{Pool: "fan", Path: v.Path})
						}
					}
				}
			}
			r.States++
			r.DistinctNontrivial++
		}
	}
}

func runBFS(c *mc.Ctx, r *mc.Result, name string, p *hist.Pool, maxLive int, siblings bool) {
	ops := p.Ops(true)
	r.Bounds["bfs."+name] = fmt.Sprintf("methods %v, patterns %v, %d operations (5 kinds + Truncate; direct / committed txn / aborted txn; malformed pattern and method), states with <=%d registered routes expanded", p.Methods, p.Patterns, len(ops), maxLive)
	g, viols := hist.BFS(p, ops, maxLive, 0, runtime.NumCPU(), c.Expired, func(from *hist.State, op hist.Op) (*hist.State, []hist.Violation) {
		return Step(p, from, op)
	})
	r.States += int64(len(g.States))
	r.Transitions += g.Transitions
	r.Evaluations += g.Transitions
	r.TracesValidated += g.Transitions
	r.Count(name+".model_states", int64(len(g.ByModel)))
	multi := 0
	for _, l := range g.ByModel {
		if len(l) > 1 {
			multi++
		}
	}
	r.Count(name+".model_states_with_several_shapes", int64(multi))
	r.DistinctNontrivial += int64(len(g.States))
	if g.Truncated {
		r.NotExhaustive = append(r.NotExhaustive, "BFS "+name+" stopped by the time guard")
	}
	for _, v := range viols {
		r.Violate("bfs", v.Class, v.Msg, Case{Quick: c.Quick(), Siblings: siblings, Pool: name, Path: v.Path})
	}
	for i, s := range g.States {
		if i == 1 || i == len(g.States)-1 {
			r.Sample(map[string]any{"bfs": name, "path": render(s.Path), "model": s.Model.String()})
		}
	}
}

func replay(c *mc.Ctx, raw json.RawMessage) string {
	var cs Case
	if err := json.Unmarshal(raw, &cs); err != nil || len(cs.Path) == 0 {
		return "bad case"
	}
	p := PoolFor(cs.Quick)
	if cs.Siblings {
		p = SiblingPool()
	}
	if cs.Pool == "methods" {
		p = MethodPool()
	}
	if cs.Pool == "nested" {
		p = NestPool()
	}
	if cs.Pool == "fan" {
		// the pool is every pattern that occurs in the history
		seen := map[string]bool{}
		p = &hist.Pool{Methods: []string{"GET"}}
		for _, o := range cs.Path {
			if !seen[o.Pattern] {
				seen[o.Pattern] = true
				p.Patterns = append(p.Patterns, o.Pattern)
			}
		}
	}
	pre := cs.Path[:len(cs.Path)-1]
	from := &hist.State{Path: pre, Model: hist.ModelOf(pre)}
	_, viols := Step(p, from, cs.Path[len(cs.Path)-1])
	if len(viols) == 0 {
		return ""
	}
	return viols[0].Msg
}

func init() {
	mc.Register(&mc.Check{
		ID:     "C02",
		Level:  "model_checking",
		Serial: true,
		Rule: "explicit-state BFS from the empty router over the full operation alphabet; a state is (model map, canonical dump of the implementation's radix tree incl. size/depth/maxParams), reached by replaying its shortest operation list on a fresh router; " +
			"every transition is checked against the sequential map model (result, error class, conflict set, returned route, all read APIs on router / read-only txn / inside the write txn); distinct_nontrivial = distinct states",
		Assumptions: []string{
			"state merging: two routers with the same (method,pattern)->version map and the same tree dump are indistinguishable by later operations (no hidden mutable state outside a transaction)",
			"conflict rule of the model: a new route conflicts with exactly the registered routes of its method whose longest common prefix with it ends strictly inside a wildcard token of both",
		},
		Parts: []mc.Part{{Name: "bfs", Run: run, Replay: replay}},
	})
}
