// Package c02: registered routes behave as an exact map keyed by (method, pattern).
package c02

import (
	"encoding/json"
	"fmt"
	"os"
	"runtime"
	"runtime/debug"
	"strings"
	"sync"
	"time"

	"github.com/tigerwill90/fox"

	"verifharness/fx"
	"verifharness/hist"
	"verifharness/mc"
)

// PoolFor returns the alphabet for a tier.
func PoolFor(quick bool) *hist.Pool {
	p := &hist.Pool{
		Methods:    []string{"GET", "POST", "FOO"},
		Patterns:   []string{"/a", "/ab", "/a/b", "/a/{x}", "/a/{y}", "/a/*{w}", "/a/*{w}/b", "a.b/c", "a.{h}/c", "{h}.b/c"},
		BadMethod:  "get",
		BadPattern: "/a/{x",
	}
	if quick {
		p.Methods = []string{"GET", "FOO"}
	}
	return p
}

// SiblingPool is a second alphabet: many single-segment siblings under one node (children slices
// with spare capacity, re-sorting on insertion), one method, explored with more live routes.
func SiblingPool() *hist.Pool {
	return &hist.Pool{
		Methods:    []string{"GET"},
		Patterns:   []string{"/a", "/b", "/c", "/d", "/e", "/{x}", "/*{w}"},
		BadMethod:  "get",
		BadPattern: "/{x",
	}
}

// PunctPool: siblings whose first bytes lie on both sides of the wildcard delimiters in byte order ('!' and '$'
// sort before '*', '~' and a non-ASCII character after '{'): the positions of the catch-all and parameter
// edges among the sorted edges of a node shift when such a sibling is linked or unlinked.
func PunctPool() *hist.Pool {
	return &hist.Pool{
		Methods:    []string{"GET"},
		Patterns:   []string{"/!a", "/$b", "/*{w}", "/m", "/{x}", "/~c", "/éd"},
		BadMethod:  "get",
		BadPattern: "/{x",
	}
}

// SlashChildPool: a split node that is no route itself ("/a") whose child on the '/' edge is in turn a leaf with
// the one-byte key "/", a longer key ("/b…") or a node with a single child, next to a sibling on another edge
// ("/ab"): the add-slash recommendation at "/a" depends on what hangs on the '/' edge right now.
func SlashChildPool() *hist.Pool {
	return &hist.Pool{
		Methods:    []string{"GET"},
		Patterns:   []string{"/a/", "/a/b", "/a/bc", "/ab", "/a", "/a/{x}"},
		BadMethod:  "get",
		BadPattern: "/{x",
	}
}

// MethodPool: few patterns under several custom methods (the method roots slice grows, shrinks and
// shifts; Truncate with several methods).
func MethodPool() *hist.Pool {
	return &hist.Pool{
		Methods:    []string{"GET", "FOO", "BAR", "BAZ"},
		Patterns:   []string{"/a", "/a/b"},
		BadMethod:  "get",
		BadPattern: "/{x",
	}
}

// NestPool: one method, a leaf with a single radix child that itself carries static, parameter and
// catch-all children (the node merges of Delete), explored with more live routes.
func NestPool() *hist.Pool {
	return &hist.Pool{
		Methods:    []string{"GET"},
		Patterns:   []string{"/a", "/a/", "/a/b", "/a/{x}", "/a/*{w}", "/a/b/*{w}", "/a/b/c"},
		BadMethod:  "get",
		BadPattern: "/{x",
	}
}

// HostPool: hostname patterns whose hosts are prefixes of one another, with parameter labels (the
// hostname/path split inside insert and remove).
func HostPool() *hist.Pool {
	return &hist.Pool{
		Methods:    []string{"GET"},
		Patterns:   []string{"{h}.b/c", "{h}.b.c/c", "{h}/c", "a.b/c", "a.b.c/c", "{h}.b/d", "/c"},
		BadMethod:  "get",
		BadPattern: "{h/c",
	}
}

// Infix2Pool: keys with two infix catch-alls inside one tree node (nested precomputed sub-nodes)
// with leaves below them.
func Infix2Pool() *hist.Pool {
	return &hist.Pool{
		Methods:    []string{"GET"},
		Patterns:   []string{"/*{x}/b/*{y}/c", "/*{x}/b/*{y}/cd", "/*{x}/b/*{y}/c/e", "/*{x}/b/*{y}/cde", "/*{x}/b", "/*{x}/b/*{y}/c/e/f"},
		BadMethod:  "get",
		BadPattern: "/*{x",
	}
}

// Case is a replayable C02 case: an operation list whose last operation is the one checked.
type Case struct {
	Quick    bool      `json:"quick"`
	Siblings bool      `json:"siblings,omitempty"`
	Pool     string    `json:"pool,omitempty"`
	Path     []hist.Op `json:"path"`
	// multi-operation transaction cases (part bodies): Path registers the seed directly, Body runs
	// inside one write transaction ended by Commit or Abort
	Body   []hist.Op `json:"body,omitempty"`
	Commit bool      `json:"commit,omitempty"`
	// Read, when set ("iter" or "snapshot"), is a Txn.Iter() / Txn.Snapshot() call issued after the
	// last operation, just before the ending
	Read string `json:"read,omitempty"`
}

// lastRead issues the read that precedes the ending.
func lastRead(txn *fox.Txn, kind string) {
	switch kind {
	case "iter":
		for range txn.Iter().All() {
		}
	case "snapshot":
		txn.Snapshot().Abort()
	}
}

func PoolNamed(name string, quick bool) *hist.Pool {
	switch name {
	case "siblings":
		return SiblingPool()
	case "methods":
		return MethodPool()
	case "punct":
		return PunctPool()
	case "slashchild":
		return SlashChildPool()
	case "nested":
		return NestPool()
	case "hosts":
		return HostPool()
	case "infix2":
		return Infix2Pool()
	case "prefixes-3-methods":
		return PoolFor(false)
	}
	return PoolFor(quick)
}

// evalBody runs one multi-operation write transaction from a seed and checks, without ever calling
// Txn.Iter or Txn.Snapshot in between (they reset the transaction's node cache): every call's result
// against the model, the transaction's own reads (Has/Route/Len) after every call, the router's
// complete read API still showing the seed while the transaction is open, and after the ending the
// complete read API showing the seed (Abort) or the model's final state (Commit).
func evalBody(p *hist.Pool, cs Case) (class, msg string) {
	f := hist.Replay(cs.Path)
	before := hist.ModelOf(cs.Path)
	cur := before
	desc := func() string {
		end := "Abort"
		if cs.Commit {
			end = "Commit"
		}
		if cs.Read != "" {
			end = "Txn." + cs.Read + " then " + end
		}
		return fmt.Sprintf("seed %s, transaction [%s] ended by %s", before.String(), render(cs.Body), end)
	}
	txn := f.Txn(true)
	defer txn.Abort()
	for i, o := range cs.Body {
		wantOut, after := hist.ModelApply(cur, o)
		out, pv := hist.ApplyIn(f, txn, o)
		if pv != "" {
			return "panic", fmt.Sprintf("operation %d (%s) panicked: %s: %s", i, o, pv, desc())
		}
		if !sameOut(out, wantOut) {
			return "wrong-result", fmt.Sprintf("operation %d (%s) returned %s, model says %s: %s", i, o, out, wantOut, desc())
		}
		cur = after
		// the transaction reads its own writes (lookups only)
		if txn.Len() != len(cur) {
			return "txn-view", fmt.Sprintf("after operation %d (%s) Txn.Len() = %d, model says %d: %s", i, o, txn.Len(), len(cur), desc())
		}
		for _, m := range p.Methods {
			for _, pt := range p.Patterns {
				v, ok := cur[hist.Key{Method: m, Pattern: pt}]
				rt := txn.Route(m, pt)
				if txn.Has(m, pt) != ok || (rt != nil) != ok || (ok && fx.RouteVer(rt) != v) {
					return "txn-view", fmt.Sprintf("after operation %d (%s) the transaction reads %s %s as has=%v version=%d, model says present=%v version=%d: %s", i, o, m, pt, txn.Has(m, pt), fx.RouteVer(rt), ok, v, desc())
				}
			}
		}
		// the router still shows the seed
		if got, want := hist.Observe(f, p), hist.ExpectObservation(before, p); got != want {
			return "uncommitted-visible", fmt.Sprintf("while the transaction is open after operation %d (%s), the router's reads are\n%s    model says\n%s    %s", i, o, indent(got), indent(want), desc())
		}
	}
	want := before
	lastRead(txn, cs.Read)
	if cs.Commit {
		txn.Commit()
		want = cur
	} else {
		txn.Abort()
	}
	if got, exp := hist.Observe(f, p), hist.ExpectObservation(want, p); got != exp {
		cls := "wrong-state"
		if !cs.Commit {
			cls = "failed-call-changed-state"
		}
		return cls, fmt.Sprintf("after the ending the router's reads are\n%s    model says\n%s    %s", indent(got), indent(exp), desc())
	}
	if m := hist.PrefixCheck(f, want, p); m != "" {
		return "wrong-prefix", m + ": " + desc()
	}
	ro := f.Txn(false)
	defer ro.Abort()
	if got, exp := hist.Observe(ro, p), hist.ExpectObservation(want, p); got != exp {
		return "wrong-state-rotxn", fmt.Sprintf("after the ending a read-only transaction reads\n%s    model says\n%s    %s", indent(got), indent(exp), desc())
	}
	return "", ""
}

// ForEachBody enumerates every seed (subsets <=seedMax of the first method's patterns, registered
// directly) x every body of exactly bodyLen write operations (Handle/Update/Delete x patterns,
// Truncate) x {Commit, Abort} and calls fn from NumCPU goroutines. It returns the number of seeds,
// the alphabet size and whether the time guard stopped it.
func ForEachBody(c *mc.Ctx, name string, p *hist.Pool, seedMax, bodyLen int, fn func(cs Case)) (nSeeds, nAlpha int, stopped bool) {
	// one method, except for the methods pool: its two first custom methods (their roots are created with the first
	// route and removed with the last one, which shifts the roots behind them)
	ms := p.Methods[:1]
	if name == "methods" {
		ms = p.Methods[1:3]
	}
	var alpha []hist.Op
	for _, m0 := range ms {
		for _, k := range []int{hist.Handle, hist.Update, hist.Delete} {
			for _, pt := range p.Patterns {
				alpha = append(alpha, hist.Op{Kind: k, Method: m0, Pattern: pt})
			}
		}
		alpha = append(alpha, hist.Op{Kind: hist.Truncate, Method: m0})
	}
	alpha = append(alpha, hist.Op{Kind: hist.Truncate})
	type mp struct{ m, p string }
	var keys []mp
	for _, m0 := range ms {
		for _, pt := range p.Patterns {
			keys = append(keys, mp{m0, pt})
		}
	}
	var seeds [][]hist.Op
	var rec func(start int, cur []hist.Op, m hist.Model)
	rec = func(start int, cur []hist.Op, m hist.Model) {
		seeds = append(seeds, append([]hist.Op{}, cur...))
		if len(cur) == seedMax {
			return
		}
		for i := start; i < len(keys); i++ {
			o := hist.Op{Kind: hist.Handle, Method: keys[i].m, Pattern: keys[i].p}
			out, after := hist.ModelApply(m, o)
			if out.Err != "" {
				continue
			}
			rec(i+1, append(cur, o), after)
		}
	}
	rec(0, nil, hist.Model{})
	type job struct {
		seed []hist.Op
		body []hist.Op
	}
	ch := make(chan job, 256)
	var wg sync.WaitGroup
	for w := 0; w < runtime.NumCPU(); w++ {
		wg.Add(1)
		go func() {
			defer wg.Done()
			for j := range ch {
				fn(Case{Quick: c.Quick(), Pool: name, Path: j.seed, Body: j.body})
				for _, read := range []string{"", "iter", "snapshot"} {
					fn(Case{Quick: c.Quick(), Pool: name, Path: j.seed, Body: j.body, Commit: true, Read: read})
				}
			}
		}()
	}
	n := 0
	var gen func(body []hist.Op, seed []hist.Op)
	gen = func(body []hist.Op, seed []hist.Op) {
		if stopped {
			return
		}
		if len(body) == bodyLen {
			n++
			if n&1023 == 0 && c.Expired() {
				stopped = true
				return
			}
			ch <- job{seed, append([]hist.Op{}, body...)}
			return
		}
		for _, o := range alpha {
			gen(append(body, o), seed)
		}
	}
	for _, s := range seeds {
		gen(nil, s)
	}
	close(ch)
	wg.Wait()
	return len(seeds), len(alpha), stopped
}

// RunBody builds the router of a body case: seed registered directly, then the body inside one write
// transaction (no reads in between), ended as the case says. It returns the router and the model of
// what must be registered afterwards.
func RunBody(cs Case, opts ...fox.GlobalOption) (*fox.Router, hist.Model) {
	f := hist.Replay(cs.Path, opts...)
	before := hist.ModelOf(cs.Path)
	cur := before
	txn := f.Txn(true)
	defer txn.Abort()
	for _, o := range cs.Body {
		_, cur = hist.ModelApply(cur, o)
		hist.ApplyIn(f, txn, o)
	}
	lastRead(txn, cs.Read)
	if cs.Commit {
		txn.Commit()
		return f, cur
	}
	txn.Abort()
	return f, before
}

func runBodies(c *mc.Ctx, r *mc.Result, name string, p *hist.Pool, seedMax, bodyLen int) {
	var mu sync.Mutex
	ns, na, stopped := ForEachBody(c, name, p, seedMax, bodyLen, func(cs Case) {
		class, msg := func() (class, msg string) {
			defer func() {
				if pv := recover(); pv != nil {
					class, msg = "panic", fmt.Sprintf("panic while running or observing the transaction body: %v\n%s", pv, mc.NormStack(string(debug.Stack()), 12))
				}
			}()
			return evalBody(p, cs)
		}()
		mu.Lock()
		r.Evaluations++
		r.Transitions += int64(len(cs.Body))
		r.TracesValidated++
		r.DistinctNontrivial++
		if class != "" {
			r.Violate("bodies", class, msg, cs)
		}
		mu.Unlock()
	})
	r.Bounds[fmt.Sprintf("bodies.%s.%d", name, bodyLen)] = fmt.Sprintf("%d seeds (subsets <=%d of %v under %s) x all bodies of %d operations over %d operations x {Abort, Commit, Txn.Iter then Commit, Txn.Snapshot then Commit}; no Txn.Iter/Snapshot between the operations", ns, seedMax, p.Patterns, p.Methods[0], bodyLen, na)
	if stopped {
		r.NotExhaustive = append(r.NotExhaustive, "bodies "+name+" stopped by the time guard")
	}
}

func render(path []hist.Op) string {
	parts := make([]string, len(path))
	for i, o := range path {
		parts[i] = o.String()
	}
	return strings.Join(parts, " ; ")
}

// Step replays from.Path, applies op, checks everything C02 states, and returns the successor.
func Step(p *hist.Pool, from *hist.State, op hist.Op) (*hist.State, []hist.Violation) {
	var viols []hist.Violation
	full := append(append([]hist.Op{}, from.Path...), op)
	bad := func(class, format string, a ...any) {
		viols = append(viols, hist.Violation{Class: class, Path: full, Msg: fmt.Sprintf(format, a...) + "\n    history: " + render(full) + "\n    model before: " + from.Model.String()})
	}
	f := hist.Replay(from.Path)
	wantOut, after := hist.ModelApply(from.Model, op)
	inTxn := func(txn *fox.Txn) {
		// the transaction reads its own writes ...
		if got, want := hist.Observe(txn, p), hist.ExpectObservation(after, p); got != want {
			bad("txn-view", "inside the transaction, after %s, the transaction's reads are\n%s    model says\n%s", op, indent(got), indent(want))
		} else if msg := hist.PrefixCheck(txn, after, p); msg != "" {
			bad("txn-view", "inside the transaction after %s: %s", op, msg)
		}
		// ... and the router still shows the state before
		if got, want := hist.Observe(f, p), hist.ExpectObservation(from.Model, p); got != want {
			bad("uncommitted-visible", "while the transaction is open after %s, the router's reads are\n%s    model says\n%s", op, indent(got), indent(want))
		}
	}
	out, panicked := hist.Apply(f, op, inTxn)
	if panicked != "" {
		bad("panic", "%s panicked: %s", op, panicked)
		return nil, viols
	}
	if !sameOut(out, wantOut) {
		cls := "wrong-result"
		if out.Err == "conflict" || wantOut.Err == "conflict" {
			cls = "wrong-conflict"
		}
		bad(cls, "%s returned %s, model says %s", op, out, wantOut)
	}
	want := from.Model
	if op.Mode != hist.TxnAbort {
		want = after
	}
	if got, exp := hist.Observe(f, p), hist.ExpectObservation(want, p); got != exp {
		cls := "wrong-state"
		if wantOut.Err != "" || op.Mode == hist.TxnAbort {
			cls = "failed-call-changed-state"
		}
		if strings.SplitN(got, "\n", 2)[1] == strings.SplitN(exp, "\n", 2)[1] {
			cls = "wrong-len"
		}
		bad(cls, "after %s the router's reads are\n%s    model says\n%s", op, indent(got), indent(exp))
	} else if msg := hist.PrefixCheck(f, want, p); msg != "" {
		bad("wrong-prefix", "after %s: %s", op, msg)
	}
	ro := f.Txn(false)
	if got, exp := hist.Observe(ro, p), hist.ExpectObservation(want, p); got != exp {
		cls := "wrong-state-rotxn"
		if strings.SplitN(got, "\n", 2)[1] == strings.SplitN(exp, "\n", 2)[1] {
			cls = "wrong-len"
		}
		bad(cls, "after %s a read-only transaction reads\n%s    model says\n%s", op, indent(got), indent(exp))
	}
	ro.Abort()
	if len(viols) > 0 {
		// do not explore beyond a violating transition: its successor is not a state of the model
		return nil, viols
	}
	return &hist.State{Path: full, Model: want, Shape: fox.VerifShape(f), Depth: from.Depth + 1}, viols
}

func sameOut(a, b hist.Outcome) bool {
	return a.String() == b.String()
}

func indent(s string) string {
	return "      " + strings.ReplaceAll(strings.TrimRight(s, "\n"), "\n", "\n      ") + "\n"
}

func run(c *mc.Ctx, r *mc.Result) {
	// the sub-runs are independent: each gets its own result, they run concurrently (a BFS is
	// level-synchronous and leaves cores idle at its barriers) and are merged in a fixed order
	var jobs []func(r *mc.Result)
	add := func(f func(r *mc.Result)) { jobs = append(jobs, f) }
	sib := 5
	if !c.Quick() {
		sib = 6
	}
	if c.Quick() {
		add(func(r *mc.Result) { runBFS(c, r, "prefixes", PoolFor(true), 2, false) })
	} else {
		// two methods with up to 3 live routes expanded, and all three methods with up to 2
		add(func(r *mc.Result) { runBFS(c, r, "prefixes", PoolFor(true), 3, false) })
		add(func(r *mc.Result) { runBFS(c, r, "prefixes-3-methods", PoolFor(false), 2, false) })
	}
	add(func(r *mc.Result) { runBFS(c, r, "siblings", SiblingPool(), sib, true) })
	add(func(r *mc.Result) { runBFS(c, r, "methods", MethodPool(), 3, false) })
	add(func(r *mc.Result) { runBFS(c, r, "nested", NestPool(), sib-1, false) })
	add(func(r *mc.Result) { runBFS(c, r, "hosts", HostPool(), sib-1, false) })
	add(func(r *mc.Result) { runBFS(c, r, "infix2", Infix2Pool(), sib-1, false) })
	add(func(r *mc.Result) { runFan(c, r) })
	add(func(r *mc.Result) { runDeep(c, r) })
	if c.Quick() {
		add(func(r *mc.Result) { runBodies(c, r, "prefixes", PoolFor(true), 2, 2) })
		add(func(r *mc.Result) { runBodies(c, r, "siblings", SiblingPool(), 3, 2) })
		add(func(r *mc.Result) { runBodies(c, r, "nested", NestPool(), 2, 2) })
		add(func(r *mc.Result) { runBodies(c, r, "hosts", HostPool(), 2, 2) })
		add(func(r *mc.Result) { runBodies(c, r, "methods", MethodPool(), 2, 2) })
	} else {
		add(func(r *mc.Result) { runBodies(c, r, "prefixes", PoolFor(true), 3, 2) })
		add(func(r *mc.Result) { runBodies(c, r, "siblings", SiblingPool(), 4, 2) })
		add(func(r *mc.Result) { runBodies(c, r, "nested", NestPool(), 3, 2) })
		add(func(r *mc.Result) { runBodies(c, r, "hosts", HostPool(), 3, 2) })
		add(func(r *mc.Result) { runBodies(c, r, "methods", MethodPool(), 3, 2) })
		add(func(r *mc.Result) { runBodies(c, r, "nested", NestPool(), 2, 3) })
		add(func(r *mc.Result) { runBodies(c, r, "siblings", SiblingPool(), 2, 3) })
	}
	results := make([]*mc.Result, len(jobs))
	var wg sync.WaitGroup
	sem := make(chan struct{}, 8)
	for i, j := range jobs {
		wg.Add(1)
		go func() {
			defer wg.Done()
			sem <- struct{}{}
			defer func() { <-sem }()
			rr := mc.NewResult()
			t0 := time.Now()
			j(rr)
			if os.Getenv("VERIF_DEBUG") != "" {
				if fh, err := os.OpenFile(os.Getenv("VERIF_DEBUG"), os.O_APPEND|os.O_CREATE|os.O_WRONLY, 0644); err == nil {
					fmt.Fprintf(fh, "c02 job %d: %.1fs eval=%d states=%d\n", i, time.Since(t0).Seconds(), rr.Evaluations, rr.States)
					fh.Close()
				}
			}
			results[i] = rr
		}()
	}
	wg.Wait()
	for _, rr := range results {
		r.Merge(rr)
	}
}

// runFan: nodes with 48..53 children (the linear/binary search switch in getEdge/updateEdge is at
// 50): every mutating operation on the first, a middle and the last sibling, and insertion of a new
// sibling sorting first / in the middle / last, directly, committed and aborted; after each, the
// complete observation is compared with the map model.
func runFan(c *mc.Ctx, r *mc.Result) {
	var ascii, wide []string
	for _, b := range []byte("0123456789ABCDEFGHIJKLMNOPQRSTUVWXYZabcdefghijklmnopqrstuvwxyz") {
		ascii = append(ascii, string(b))
	}
	// a second alphabet whose first bytes span more than half of the byte range: 32 ASCII characters up to 'V'
	// and 30 two-byte UTF-8 characters with the lead bytes 0xC2..0xDF
	wide = append(wide, ascii[:32]...)
	for lead := 0xC2; lead <= 0xDF; lead++ {
		wide = append(wide, string([]byte{byte(lead), 0xA9}))
	}
	r.Bounds["fan"] = "48..53 static siblings under '/', '/{p}/' and 'h.x/' x {Handle new first/middle/last, Update/Delete first/middle/last, UpdateRoute, HandleRoute} x {direct, committed txn, aborted txn}; the same with a parameter edge and a catch-all edge on the big node and routes added / updated / deleted through them; the same under '/' and 'h.x/' with siblings whose first bytes range from '0' to 0xDF (non-ASCII characters)"
	type fanCase struct {
		prefix  string
		wild    bool
		letters []string
	}
	var fcs []fanCase
	for _, prefix := range []string{"/", "/{p}/", "h.x/"} {
		fcs = append(fcs, fanCase{prefix, false, ascii}, fanCase{prefix, true, ascii})
		if prefix != "/{p}/" {
			fcs = append(fcs, fanCase{prefix, false, wide}, fanCase{prefix, true, wide})
		}
	}
	for _, fc := range fcs {
		prefix, letters := fc.prefix, fc.letters
		for n := 48; n <= 53; n++ {
			if (fc.wild || len(letters) != len(ascii)) && n != 49 && n != 51 && n != 52 {
				continue
			}
			// siblings use every other letter so that new ones can sort first, in the middle and last
			var pats []string
			for i := 0; i < n; i++ {
				pats = append(pats, prefix+letters[1+i])
			}
			newOnes := []string{prefix + letters[0], prefix + letters[1+n/2] + "x", prefix + letters[1+n]}
			if fc.wild {
				// the big node also has a parameter edge and a catch-all edge (registered last); new routes
				// go through those edges
				pats = append(pats, prefix+"{q}/aa", prefix+"*{w}/aa")
				newOnes = append(newOnes, prefix+"{q}/bb", prefix+"*{w}/bb")
			}
			pool := &hist.Pool{Methods: []string{"GET"}, Patterns: append(append([]string{}, pats...), newOnes...)}
			var seedPath []hist.Op
			for _, p := range pats {
				seedPath = append(seedPath, hist.Op{Kind: hist.Handle, Method: "GET", Pattern: p})
			}
			from := &hist.State{Path: seedPath, Model: hist.ModelOf(seedPath)}
			targets := []string{pats[0], pats[n/2], pats[n-1]}
			if fc.wild {
				targets = append(targets, prefix+"{q}/aa", prefix+"*{w}/aa")
			}
			var ops []hist.Op
			for mode := 0; mode < 3; mode++ {
				for _, p := range newOnes {
					ops = append(ops, hist.Op{Kind: hist.Handle, Method: "GET", Pattern: p, Mode: mode}, hist.Op{Kind: hist.HandleRoute, Method: "GET", Pattern: p, Mode: mode}, hist.Op{Kind: hist.Delete, Method: "GET", Pattern: p, Mode: mode})
				}
				for _, p := range targets {
					ops = append(ops, hist.Op{Kind: hist.Update, Method: "GET", Pattern: p, Mode: mode}, hist.Op{Kind: hist.UpdateRoute, Method: "GET", Pattern: p, Mode: mode}, hist.Op{Kind: hist.Delete, Method: "GET", Pattern: p, Mode: mode}, hist.Op{Kind: hist.Handle, Method: "GET", Pattern: p, Mode: mode})
				}
			}
			for _, op := range ops {
				next, viols := Step(pool, from, op)
				r.Evaluations++
				r.Transitions++
				r.TracesValidated++
				for _, v := range viols {
					r.Violate("bfs", v.Class, fmt.Sprintf("[%d siblings under %q] ", n, prefix)+v.Msg, Case{Pool: "fan", Path: v.Path})
				}
				// one more step from the successor: the operation applied to a tree that just changed
				if next != nil && len(viols) == 0 {
					for _, op2 := range ops[:7] {
						_, v2 := Step(pool, next, op2)
						r.Evaluations++
						r.Transitions++
						for _, v := range v2 {
							r.Violate("bfs", v.Class, fmt.Sprintf("[%d siblings under %q] ", n, prefix)+v.Msg, Case{Pool: "fan", Path: v.Path})
						}
					}
				}
			}
			r.States++
			r.DistinctNontrivial++
		}
	}
}

// runDeep: trees with 6..12 nested branching levels (/z, /a/z, /a/a/z, …: every level has a sibling and children),
// plain and below a parameter, under two methods: Truncate of one, two and all methods, an insertion whose wildcard
// conflicts with everything below the parameter (the error must name each registered route once), and the usual
// writes on the deepest, a middle and the shallowest route; after each, the complete observation (Len, iterators,
// Has, Route) is compared with the map model.
func runDeep(c *mc.Ctx, r *mc.Result) {
	r.Bounds["deep"] = "6..12 nested branching levels under '/' and '/{p}/' x two methods x {Truncate(GET), Truncate(POST), Truncate(GET,POST), Truncate(), conflicting Handle, Handle/Update/Delete at the deepest, middle and shallowest level} x {direct, committed txn, aborted txn}, one more step from every successor"
	for _, prefix := range []string{"", "/{p}"} {
		for d := 6; d <= 12; d++ {
			var pats []string
			for i := 0; i < d; i++ {
				pats = append(pats, prefix+strings.Repeat("/a", i)+"/z")
			}
			extra := []string{prefix + strings.Repeat("/a", d) + "/z", prefix + strings.Repeat("/a", d/2) + "/y", prefix + "/y"}
			conflict := "/{q}/z"
			pool := &hist.Pool{Methods: []string{"GET", "POST"}, Patterns: append(append(append([]string{}, pats...), extra...), conflict)}
			var seedPath []hist.Op
			for i, p := range pats {
				seedPath = append(seedPath, hist.Op{Kind: hist.Handle, Method: "GET", Pattern: p})
				if i%2 == 0 {
					seedPath = append(seedPath, hist.Op{Kind: hist.Handle, Method: "POST", Pattern: p})
				}
			}
			from := &hist.State{Path: seedPath, Model: hist.ModelOf(seedPath)}
			var ops []hist.Op
			for mode := 0; mode < 3; mode++ {
				if mode > 0 {
					for _, m := range []string{"GET", "POST", "GET,POST", ""} {
						ops = append(ops, hist.Op{Kind: hist.Truncate, Method: m, Mode: mode})
					}
				}
				ops = append(ops, hist.Op{Kind: hist.Handle, Method: "GET", Pattern: conflict, Mode: mode}, hist.Op{Kind: hist.HandleRoute, Method: "POST", Pattern: conflict, Mode: mode})
				for _, p := range extra {
					ops = append(ops, hist.Op{Kind: hist.Handle, Method: "GET", Pattern: p, Mode: mode})
				}
				for _, p := range []string{pats[0], pats[d/2], pats[d-1]} {
					ops = append(ops, hist.Op{Kind: hist.Update, Method: "GET", Pattern: p, Mode: mode}, hist.Op{Kind: hist.Delete, Method: "GET", Pattern: p, Mode: mode}, hist.Op{Kind: hist.Delete, Method: "POST", Pattern: p, Mode: mode})
				}
			}
			for _, op := range ops {
				next, viols := Step(pool, from, op)
				r.Evaluations++
				r.Transitions++
				r.TracesValidated++
				for _, v := range viols {
					r.Violate("bfs", v.Class, fmt.Sprintf("[%d nested levels under %q] ", d, prefix+"/")+v.Msg, Case{Pool: "deep", Path: v.Path})
				}
				if next != nil && len(viols) == 0 {
					for _, op2 := range ops[len(ops)-13:] {
						_, v2 := Step(pool, next, op2)
						r.Evaluations++
						r.Transitions++
						for _, v := range v2 {
							r.Violate("bfs", v.Class, fmt.Sprintf("[%d nested levels under %q] ", d, prefix+"/")+v.Msg, Case{Pool: "deep", Path: v.Path})
						}
					}
				}
			}
			r.States++
			r.DistinctNontrivial++
		}
	}
}

func runBFS(c *mc.Ctx, r *mc.Result, name string, p *hist.Pool, maxLive int, siblings bool) {
	ops := p.Ops(true)
	r.Bounds["bfs."+name] = fmt.Sprintf("methods %v, patterns %v, %d operations (5 kinds + Truncate; direct / committed txn / aborted txn; malformed pattern and method), states with <=%d registered routes expanded", p.Methods, p.Patterns, len(ops), maxLive)
	g, viols := hist.BFS(p, ops, maxLive, 0, runtime.NumCPU(), c.Expired, func(from *hist.State, op hist.Op) (*hist.State, []hist.Violation) {
		return Step(p, from, op)
	})
	r.States += int64(len(g.States))
	r.Transitions += g.Transitions
	r.Evaluations += g.Transitions
	r.TracesValidated += g.Transitions
	r.Count(name+".model_states", int64(len(g.ByModel)))
	multi := 0
	for _, l := range g.ByModel {
		// distinct tree dumps (a state and its after-managed-commit twin share one)
		shapes := map[string]bool{}
		for _, i := range l {
			shapes[g.States[i].Shape] = true
		}
		if len(shapes) > 1 {
			multi++
		}
	}
	r.Count(name+".model_states_with_several_shapes", int64(multi))
	r.DistinctNontrivial += int64(len(g.States))
	if g.Truncated {
		r.NotExhaustive = append(r.NotExhaustive, "BFS "+name+" stopped by the time guard")
	}
	for _, v := range viols {
		r.Violate("bfs", v.Class, v.Msg, Case{Quick: c.Quick(), Siblings: siblings, Pool: name, Path: v.Path})
	}
	for i, s := range g.States {
		if i == 1 || i == len(g.States)-1 {
			r.Sample(map[string]any{"bfs": name, "path": render(s.Path), "model": s.Model.String()})
		}
	}
}

func replay(c *mc.Ctx, raw json.RawMessage) string {
	var cs Case
	if err := json.Unmarshal(raw, &cs); err != nil || (len(cs.Path) == 0 && len(cs.Body) == 0) {
		return "bad case"
	}
	if len(cs.Body) > 0 {
		_, msg := evalBody(PoolNamed(cs.Pool, cs.Quick), cs)
		return msg
	}
	p := PoolFor(cs.Quick)
	if cs.Siblings {
		p = SiblingPool()
	}
	if cs.Pool == "methods" {
		p = MethodPool()
	}
	if cs.Pool == "nested" {
		p = NestPool()
	}
	if cs.Pool == "hosts" {
		p = HostPool()
	}
	if cs.Pool == "infix2" {
		p = Infix2Pool()
	}
	if cs.Pool == "fan" || cs.Pool == "deep" {
		// the pool is every pattern that occurs in the history
		seen := map[string]bool{}
		p = &hist.Pool{Methods: []string{"GET"}}
		if cs.Pool == "deep" {
			p.Methods = []string{"GET", "POST"}
		}
		for _, o := range cs.Path {
			if o.Pattern != "" && !seen[o.Pattern] {
				seen[o.Pattern] = true
				p.Patterns = append(p.Patterns, o.Pattern)
			}
		}
	}
	pre := cs.Path[:len(cs.Path)-1]
	from := &hist.State{Path: pre, Model: hist.ModelOf(pre)}
	_, viols := Step(p, from, cs.Path[len(cs.Path)-1])
	if len(viols) == 0 {
		return ""
	}
	return viols[0].Msg
}

func init() {
	mc.Register(&mc.Check{
		ID:     "C02",
		Level:  "model_checking",
		Serial: true,
		Rule: "explicit-state BFS from the empty router over the full operation alphabet; a state is (model map, canonical dump of the implementation's radix tree incl. size/depth/maxParams), reached by replaying its shortest operation list on a fresh router; " +
			"every transition is checked against the sequential map model (result, error class, conflict set, returned route, all read APIs on router / read-only txn / inside the write txn); distinct_nontrivial = distinct states",
		Assumptions: []string{
			"state merging: two routers with the same (method,pattern)->version map and the same tree dump are indistinguishable by later operations (no hidden mutable state outside a transaction)",
			"conflict rule of the model: a new route conflicts with exactly the registered routes of its method whose longest common prefix with it ends strictly inside a wildcard token of both",
		},
		Parts: []mc.Part{{Name: "bfs", Run: run, Replay: replay}, {Name: "bodies", Run: func(*mc.Ctx, *mc.Result) {}, Replay: replay}},
	})
}
