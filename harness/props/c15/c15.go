// Package c15: handler panics are contained and leave the router usable.
package c15

import (
	"context"
	"encoding/json"
	"errors"
	"fmt"
	"io"
	"log/slog"
	"net"
	"net/http"
	"os"
	"regexp"
	"slices"
	"strings"
	"syscall"

	"github.com/tigerwill90/fox"
	vs "github.com/tigerwill90/fox/verifsync"

	"verifharness/fx"
	"verifharness/mc"
)

type capture struct{ recs []string }

func (c *capture) Enabled(context.Context, slog.Level) bool { return true }
func (c *capture) Handle(_ context.Context, r slog.Record) error {
	var sb strings.Builder
	sb.WriteString(r.Level.String() + " " + r.Message)
	r.Attrs(func(a slog.Attr) bool { sb.WriteString("\n@" + a.Key + "=" + a.Value.String()); return true })
	c.recs = append(c.recs, sb.String())
	return nil
}
func (c *capture) WithAttrs([]slog.Attr) slog.Handler { return c }
func (c *capture) WithGroup(string) slog.Handler      { return c }

type custom struct{ A int }

type panicVal struct {
	name   string
	mk     func() any
	abort  bool // must be re-raised
	broken bool // broken connection: no 500
	gray   bool // statement does not decide (wrapped broken connection)
}

func opErr(e syscall.Errno) *net.OpError {
	return &net.OpError{Op: "write", Net: "tcp", Err: &os.SyscallError{Syscall: "write", Err: e}}
}

var wrappedAbort = fmt.Errorf("wrapped: %w", http.ErrAbortHandler)

type badStringer struct{ name string }

func (b *badStringer) String() string { return "bad:" + b.name }

func panicVals() []panicVal {
	return []panicVal{
		{name: "string", mk: func() any { return "s" }},
		{name: "error", mk: func() any { return errors.New("plain error") }},
		{name: "wrapped error", mk: func() any { return fmt.Errorf("outer: %w", errors.New("inner")) }},
		{name: "nil", mk: func() any { return nil }},
		{name: "int", mk: func() any { return 42 }},
		{name: "struct", mk: func() any { return custom{7} }},
		{name: "ErrAbortHandler", mk: func() any { return http.ErrAbortHandler }, abort: true},
		{name: "wrapped ErrAbortHandler", mk: func() any { return wrappedAbort }, abort: true},
		{name: "OpError EPIPE", mk: func() any { return opErr(syscall.EPIPE) }, broken: true},
		{name: "OpError ECONNRESET", mk: func() any { return opErr(syscall.ECONNRESET) }, broken: true},
		// the panic value itself is the *net.OpError; the system-call error sits deeper in its chain
		{name: "OpError EPIPE (syscall error wrapped)", mk: func() any {
			return &net.OpError{Op: "write", Net: "tcp", Err: fmt.Errorf("flush: %w", &os.SyscallError{Syscall: "write", Err: syscall.EPIPE})}
		}, broken: true},
		{name: "OpError ECONNRESET (nested OpError)", mk: func() any {
			return &net.OpError{Op: "write", Net: "tcp", Err: opErr(syscall.ECONNRESET)}
		}, broken: true},
		{name: "OpError ETIMEDOUT (syscall error wrapped)", mk: func() any {
			return &net.OpError{Op: "read", Net: "tcp", Err: fmt.Errorf("read: %w", &os.SyscallError{Syscall: "read", Err: syscall.ETIMEDOUT})}
		}},
		{name: "OpError ETIMEDOUT", mk: func() any { return opErr(syscall.ETIMEDOUT) }},
		{name: "wrapped OpError EPIPE", mk: func() any { return fmt.Errorf("w: %w", opErr(syscall.EPIPE)) }, gray: true},
		// values whose own formatting method panics (a typed nil pointer whose String reads a field): the
		// recovery must not panic a second time while describing them
		{name: "Stringer whose String panics", mk: func() any { var p *badStringer; return p }},
		{name: "runtime error", mk: func() any {
			var pv any
			func() {
				defer func() { pv = recover() }()
				var m map[string]int
				m["x"] = 1
			}()
			return pv
		}},
	}
}

const (
	progNothing = iota
	progHeader
	progBody
	progFlush     // header pushed by a flush only
	progHeader101 // the final header is 101 Switching Protocols
	nProgs
)

var progNames = [...]string{"nothing written", "header only (WriteHeader 202)", "partial body", "header only (FlushError)", "header only (WriteHeader 101)"}

const (
	siteRoute = iota
	siteRouteMw
	siteNoRoute
	siteNoMethod
	siteOptions
	// the route handler registers routes at run time and a middleware constructor (user code that
	// runs while the route is being built) panics
	siteHandleCtor
	siteUpdateCtor
	siteTxnCtor
	siteNewRouteCtor
	nSites
)

var siteNames = [...]string{"route handler", "inner route middleware", "no-route handler", "no-method handler", "options handler",
	"middleware constructor during Router.Handle called by the route handler", "middleware constructor during Router.Update called by the route handler",
	"middleware constructor during Txn.Handle inside Updates called by the route handler", "middleware constructor during Router.NewRoute called by the route handler"}

func routeSite(site int) bool { return site <= siteRouteMw || site >= siteHandleCtor }

var sensitive = []string{"Authorization", "Proxy-Authorization", "Cookie", "Set-Cookie", "X-CSRF-Token", "X-Vault-Token"}

func spellings(name string) []string {
	mixed := []byte(strings.ToLower(name))
	for i := range mixed {
		if i%2 == 0 && mixed[i] >= 'a' && mixed[i] <= 'z' {
			mixed[i] -= 32
		}
	}
	return []string{http.CanonicalHeaderKey(name), name, strings.ToLower(name), strings.ToUpper(name), string(mixed)}
}

// Case is a replayable C15 case.
type Case struct {
	Val    int    `json:"val"`
	Prog   int    `json:"prog"`
	Site   int    `json:"site"`
	Header string `json:"header"` // sensitive header name as spelled on the request ("" = none)
	// Ctx: state of the request's context.Context at the time of the panic: 0 live; 1 the request arrived with a
	// cancelled context; 2 the panicking handler attached a request with a cancelled context (Context.SetRequest,
	// as a timeout middleware does) before panicking. A done context is not a broken connection.
	Ctx int `json:"ctx,omitempty"`
}

var ctxNames = [...]string{"live request context", "request context cancelled on arrival", "handler attached a cancelled request context"}

func cancelledCtx() context.Context {
	ctx, cancel := context.WithCancel(context.Background())
	cancel()
	return ctx
}

// flushRW is an RW that supports flushing.
type flushRW struct{ *fx.RW }

func (f flushRW) Flush() {
	if f.RW.Code == 0 {
		f.RW.Code = 200
	}
}

func evalCase(cs Case) (class, msg string) {
	pvs := panicVals()
	pv := pvs[cs.Val]
	cap := &capture{}
	thrown := pv.mk()
	boom := func(c fox.Context) {
		if cs.Ctx == 2 {
			c.SetRequest(c.Request().WithContext(cancelledCtx()))
		}
		switch cs.Prog {
		case progHeader:
			c.Writer().WriteHeader(202)
		case progBody:
			c.Writer().WriteHeader(202)
			c.Writer().Write([]byte("partial"))
		case progFlush:
			c.Writer().FlushError()
		case progHeader101:
			c.Writer().WriteHeader(101)
		}
		panic(thrown)
	}
	ok := func(c fox.Context) { c.Writer().WriteHeader(204) }
	ctor := func(next fox.HandlerFunc) fox.HandlerFunc { panic(thrown) }
	dyn := func(c fox.Context) {
		switch cs.Prog {
		case progHeader:
			c.Writer().WriteHeader(202)
		case progBody:
			c.Writer().WriteHeader(202)
			c.Writer().Write([]byte("partial"))
		case progFlush:
			c.Writer().FlushError()
		case progHeader101:
			c.Writer().WriteHeader(101)
		}
		switch cs.Site {
		case siteHandleCtor:
			c.Fox().Handle("GET", "/dyn", ok, fox.WithMiddleware(ctor))
		case siteUpdateCtor:
			c.Fox().Update("GET", "/fine", ok, fox.WithMiddleware(ctor))
		case siteTxnCtor:
			c.Fox().Updates(func(txn *fox.Txn) error {
				txn.Handle("GET", "/dyn2", ok)
				_, err := txn.Handle("GET", "/dyn", ok, fox.WithMiddleware(ctor))
				return err
			})
		case siteNewRouteCtor:
			c.Fox().NewRoute("/dyn", ok, fox.WithMiddleware(ctor))
		}
	}
	rec := fox.CustomRecoveryWithLogHandler(cap, fox.DefaultHandleRecovery)
	opts := []fox.GlobalOption{fox.WithMiddlewareFor(fox.AllHandlers, rec), fox.WithNoMethod(true), fox.WithAutoOptions(true)}
	switch cs.Site {
	case siteNoRoute:
		opts = append(opts, fox.WithNoRouteHandler(boom))
	case siteNoMethod:
		opts = append(opts, fox.WithNoMethodHandler(boom))
	case siteOptions:
		opts = append(opts, fox.WithOptionsHandler(boom))
	}
	f, err := fox.New(opts...)
	if err != nil {
		return "error", err.Error()
	}
	switch cs.Site {
	case siteRoute:
		f.Handle("GET", "/boom/{id}/*{rest}", boom)
	case siteRouteMw:
		f.Handle("GET", "/boom/{id}/*{rest}", ok, fox.WithMiddleware(func(next fox.HandlerFunc) fox.HandlerFunc {
			return func(c fox.Context) { boom(c); next(c) }
		}))
	case siteHandleCtor, siteUpdateCtor, siteTxnCtor, siteNewRouteCtor:
		f.Handle("GET", "/boom/{id}/*{rest}", dyn)
	default:
		f.Handle("GET", "/boom/{id}/*{rest}", ok)
	}
	f.Handle("GET", "/fine", ok)
	method, path := "GET", "/boom/ID42/re/st"
	switch cs.Site {
	case siteNoRoute:
		path = "/nowhere/ID42"
	case siteNoMethod:
		method = "POST"
	case siteOptions:
		method = "OPTIONS"
	}
	rq := fx.Req(method, "example.test", path)
	rq.URL.RawQuery = "q=1"
	if cs.Ctx == 1 {
		rq = rq.WithContext(cancelledCtx())
	}
	rq.Header["X-Ordinary"] = []string{"ordinary-value"}
	rq.Header["accept"] = []string{"lowercase-ordinary"}
	secret := "SECRET-" + cs.Header + "-VALUE"
	if cs.Header != "" {
		// two values under the same name (two header lines in the dump): both are credentials
		// (the third has the shape of real credentials: colons and separators inside the value)
		// and a one-byte value first: its redacted line is longer than the original line
		rq.Header[cs.Header] = []string{"k", secret, "second-" + secret, "Basic user:third-" + secret + ": k=v; x:y"}
	}
	rw := fx.NewRW()
	var under http.ResponseWriter = rw
	if cs.Prog == progFlush {
		under = flushRW{rw}
	}
	desc := fmt.Sprintf("panic(%s) in the %s after %s, sensitive header %q, %s", pv.name, siteNames[cs.Site], progNames[cs.Prog], cs.Header, ctxNames[cs.Ctx])
	var escaped any
	didPanic := false
	func() {
		defer func() {
			if p := recover(); p != nil {
				escaped = p
				didPanic = true
			}
		}()
		f.ServeHTTP(under, rq)
	}()
	// panic(nil) surfaces as *runtime.PanicNilError inside recover
	if pv.abort {
		if !didPanic || escaped != thrown {
			return "abort-not-reraised", fmt.Sprintf("http.ErrAbortHandler must be re-raised unchanged, got %v (%T): %s", escaped, escaped, desc)
		}
	} else if didPanic {
		return "panic-escaped", fmt.Sprintf("the panic escaped ServeHTTP (%v): %s", escaped, desc)
	}
	// response
	if !pv.abort && !pv.gray {
		switch cs.Prog {
		case progNothing:
			if pv.broken {
				if rw.Code != 0 || len(rw.Body) != 0 {
					return "wrote-on-broken-connection", fmt.Sprintf("status %d / %d body bytes written although the panic reports a broken connection: %s", rw.Code, len(rw.Body), desc)
				}
			} else if rw.Code != 500 {
				return "no-500", fmt.Sprintf("status %d, want 500: %s", rw.Code, desc)
			}
		case progHeader:
			if rw.Code != 202 || len(rw.Body) != 0 {
				return "started-response-touched", fmt.Sprintf("the started response (202, no body) became status %d with %d body bytes: %s", rw.Code, len(rw.Body), desc)
			}
		case progBody:
			if rw.Code != 202 || string(rw.Body) != "partial" {
				return "started-response-touched", fmt.Sprintf("the started response (202, \"partial\") became status %d body %q: %s", rw.Code, rw.Body, desc)
			}
		case progFlush:
			if rw.Code != 200 || len(rw.Body) != 0 {
				return "started-response-touched", fmt.Sprintf("the flushed response (200, no body) became status %d with %d body bytes: %s", rw.Code, len(rw.Body), desc)
			}
		case progHeader101:
			if rw.Code != 101 || len(rw.Body) != 0 || rw.Calls != 1 {
				return "started-response-touched", fmt.Sprintf("the started response (101, no body) became status %d with %d body bytes after %d WriteHeader calls: %s", rw.Code, len(rw.Body), rw.Calls, desc)
			}
		}
	}
	// diagnostic record
	if !pv.abort {
		if len(cap.recs) != 1 {
			return "record-count", fmt.Sprintf("%d diagnostic records, want 1: %s", len(cap.recs), desc)
		}
		r := cap.recs[0]
		if cs.Header != "" && strings.Contains(r, secret) {
			return "secret-logged", fmt.Sprintf("the diagnostic record contains the value of header %q: %s", cs.Header, desc)
		}
		if !strings.Contains(r, method+" "+path+"?q=1 HTTP/1.1") {
			return "record-content", fmt.Sprintf("the diagnostic record does not contain the request line: %s\n%s", desc, r)
		}
		if !strings.Contains(r, "ordinary-value") || !strings.Contains(r, "lowercase-ordinary") {
			return "record-content", fmt.Sprintf("ordinary headers are missing from the diagnostic record: %s", desc)
		}
		if routeSite(cs.Site) {
			if !strings.Contains(r, "@route=/boom/{id}/*{rest}") || !strings.Contains(r, "id=ID42") || !strings.Contains(r, "rest=re/st") {
				return "record-content", fmt.Sprintf("the diagnostic record does not name the route and its parameters: %s\n%s", desc, r)
			}
		}
	}
	// the router stays usable
	if !f.Has("GET", "/fine") || !f.Has("GET", "/boom/{id}/*{rest}") || f.Len() != 2 {
		return "routes-changed", "registered routes changed: " + desc
	}
	rw2 := fx.NewRW()
	f.ServeHTTP(rw2, fx.Req("GET", "", "/fine"))
	if rw2.Code != 204 {
		return "unusable-after", fmt.Sprintf("a later normal request got status %d: %s", rw2.Code, desc)
	}
	var lockErr any
	func() {
		defer func() { lockErr = recover() }()
		if _, err := f.Handle("GET", "/after", ok); err != nil {
			lockErr = err
		}
	}()
	if lockErr != nil {
		cls := "unusable-after"
		if strings.Contains(fmt.Sprint(lockErr), "held mutex") {
			cls = "lock-not-released"
		}
		return cls, fmt.Sprintf("a later write failed (%v): %s", lockErr, desc)
	}
	return "", ""
}

// evalManagedSeq: seed {GET /a, /a/b, /a/c} (a node with children); the Updates function performs an
// ordered sequence of distinct writes and then panics; afterwards every seed route must still be
// served by its original handler, nothing else must be registered and a new write must complete.
var managedSteps = []string{"Update /a", "Update /a/b", "Update /a/c", "Handle /a/d", "Delete /a/c", "Handle /a/{x}", "Truncate GET", "Truncate GET,POST", "Truncate"}

// managedSeeds: the route sets the sequences start from. The larger ones give the node "/a/" three and five
// children registered one at a time (an edge slice that grew by doubling has spare capacity, so a write that adds a
// sibling in the middle shows whether it reorders the published slice).
var managedSeeds = [][]string{{"/a", "/a/b", "/a/c"}, {"/a", "/a/b", "/a/c", "/a/e"}, {"/a", "/a/b", "/a/c", "/a/e", "/a/f", "/a/g"}}

var managedProbes = []string{"/a", "/a/b", "/a/c", "/a/d", "/a/e", "/a/f", "/a/g", "/a/zz"}

func evalManagedSeq(seed int, seq []int) (string, string) {
	f, _ := fox.New()
	for _, p := range managedSeeds[seed] {
		f.MustHandle("GET", p, fx.VerHandler(1), fx.WithVer(1))
	}
	type boom struct{}
	var names []string
	for _, i := range seq {
		names = append(names, managedSteps[i])
	}
	desc := fmt.Sprintf("Updates performing [%s] and then panicking, on GET %v", strings.Join(names, "; "), managedSeeds[seed])
	var escaped any
	func() {
		defer func() { escaped = recover() }()
		f.Updates(func(t *fox.Txn) error {
			for _, i := range seq {
				parts := strings.SplitN(managedSteps[i], " ", 2)
				switch parts[0] {
				case "Update":
					t.Update("GET", parts[1], fx.VerHandler(2), fx.WithVer(2))
				case "Handle":
					t.Handle("GET", parts[1], fx.VerHandler(2), fx.WithVer(2))
				case "Delete":
					t.Delete("GET", parts[1])
				case "Truncate":
					if len(parts) == 1 {
						t.Truncate()
					} else {
						t.Truncate(strings.Split(parts[1], ",")...)
					}
				}
			}
			panic(boom{})
		})
	}()
	if _, ok := escaped.(boom); !ok {
		return "panic-swallowed", fmt.Sprintf("the panic value did not propagate unchanged (%v): %s", escaped, desc)
	}
	var after any
	var got []string
	func() {
		defer func() { after = recover() }()
		for _, p := range managedProbes {
			rw := fx.NewRW()
			f.ServeHTTP(rw, fx.Req("GET", "", p))
			got = append(got, fmt.Sprintf("%s=%d/v%s", p, rw.Code, rw.H.Get("V")))
			if rt := f.Route("GET", p); rt != nil {
				got = append(got, fmt.Sprintf("route%s=v%d", p, fx.RouteVer(rt)))
			}
		}
		got = append(got, fmt.Sprintf("len=%d", f.Len()))
	}()
	var wants []string
	for _, p := range managedProbes {
		if slices.Contains(managedSeeds[seed], p) {
			wants = append(wants, fmt.Sprintf("%s=200/v1 route%s=v1", p, p))
		} else {
			wants = append(wants, p+"=404/v")
		}
	}
	want := strings.Join(wants, " ") + fmt.Sprintf(" len=%d", len(managedSeeds[seed]))
	if after != nil || strings.Join(got, " ") != want {
		return "routes-changed", fmt.Sprintf("after the panic the router answers [%s] (panic %v), want [%s]: %s", strings.Join(got, " "), after, want, desc)
	}
	var lockErr any
	func() {
		defer func() { lockErr = recover() }()
		if _, err := f.Handle("GET", "/after", fx.VerHandler(1)); err != nil {
			lockErr = err
		}
	}()
	if lockErr != nil {
		return "lock-not-released", fmt.Sprintf("a later write failed (%v): %s", lockErr, desc)
	}
	return "", ""
}

// managed transaction functions: a panic after every prefix of the body.
func evalManaged(view bool, prefix int) (string, string) {
	f, _ := fox.New()
	ok := func(c fox.Context) { c.Writer().WriteHeader(204) }
	f.Handle("GET", "/a", ok)
	f.Handle("GET", "/b", ok)
	type boom struct{}
	body := func(t *fox.Txn) error {
		steps := []func(){
			func() { t.Handle("GET", "/c", ok) },
			func() { t.Delete("GET", "/a") },
			func() { t.Update("GET", "/b", ok) },
		}
		for i, s := range steps {
			if i == prefix {
				panic(boom{})
			}
			if view {
				t.Has("GET", "/a")
			} else {
				s()
			}
		}
		panic(boom{})
	}
	var escaped any
	func() {
		defer func() { escaped = recover() }()
		if view {
			f.View(body)
		} else {
			f.Updates(body)
		}
	}()
	name := "Updates"
	if view {
		name = "View"
	}
	desc := fmt.Sprintf("%s panicking after %d operations", name, prefix)
	if _, ok := escaped.(boom); !ok {
		return "panic-swallowed", fmt.Sprintf("the panic value did not propagate unchanged (%v): %s", escaped, desc)
	}
	if !f.Has("GET", "/a") || !f.Has("GET", "/b") || f.Has("GET", "/c") || f.Len() != 2 {
		return "routes-changed", "registered routes changed: " + desc
	}
	rw := fx.NewRW()
	f.ServeHTTP(rw, fx.Req("GET", "", "/a"))
	if rw.Code != 204 {
		return "unusable-after", "a later request failed: " + desc
	}
	var lockErr any
	func() {
		defer func() { lockErr = recover() }()
		if _, err := f.Handle("GET", "/after", ok); err != nil {
			lockErr = err
		}
	}()
	if lockErr != nil {
		return "lock-not-released", fmt.Sprintf("a later write failed (%v): %s", lockErr, desc)
	}
	return "", ""
}

func run(c *mc.Ctx, r *mc.Result) {
	pvs := panicVals()
	var headers []string
	headers = append(headers, "")
	for _, s := range sensitive {
		headers = append(headers, spellings(s)...)
	}
	// dedupe
	seen := map[string]bool{}
	var hs []string
	for _, h := range headers {
		if !seen[h] {
			seen[h] = true
			hs = append(hs, h)
		}
	}
	r.Bounds["space"] = fmt.Sprintf("%d panic values x 5 response progress states x 9 panic sites (5 handler kinds + a middleware constructor panicking during Router.Handle / Router.Update / Txn.Handle in Updates / NewRoute issued by a handler) x %d request header spellings (6 sensitive names, each canonical / as documented / lower / upper / mixed, + none); Updates and View panicking after every prefix of a 3-operation body; Updates panicking after every ordered sequence of <=3 distinct writes over 9 (incl. Truncate) on a node with children", len(pvs), len(hs))
	idx := 0
	for vi := range pvs {
		for prog := 0; prog < nProgs; prog++ {
			for site := 0; site < nSites; site++ {
				for _, h := range hs {
					idx++
					if !c.Mine(idx) {
						continue
					}
					for cx := range ctxNames {
						cs := Case{Val: vi, Prog: prog, Site: site, Header: h, Ctx: cx}
						class, msg := evalCase(cs)
						r.Evaluations++
						r.DistinctNontrivial++
						if class != "" {
							r.Violate("faults", class, msg, cs)
						}
					}
				}
			}
		}
	}
	if c.Shard == 0 {
		// every ordered sequence of <=3 distinct writes, then a panic
		var seqs [][]int
		var gen func(cur []int)
		gen = func(cur []int) {
			if len(cur) > 0 {
				seqs = append(seqs, append([]int{}, cur...))
			}
			if len(cur) == 3 {
				return
			}
		next:
			for i := range managedSteps {
				for _, j := range cur {
					if i == j {
						continue next
					}
				}
				gen(append(cur, i))
			}
		}
		gen(nil)
		for seed := range managedSeeds {
			for _, sq := range seqs {
				class, msg := evalManagedSeq(seed, sq)
				r.Evaluations++
				r.DistinctNontrivial++
				if class != "" {
					r.Violate("faults", class, msg, map[string]any{"managed_seq": sq, "seed": seed})
				}
			}
		}
		for _, view := range []bool{false, true} {
			for p := 0; p <= 3; p++ {
				class, msg := evalManaged(view, p)
				r.Evaluations++
				if class != "" {
					r.Violate("faults", class, msg, map[string]any{"managed": true, "view": view, "prefix": p})
				}
			}
		}
		r.Sample(Case{Val: 8, Prog: progNothing, Site: siteRouteMw, Header: "x-csrf-token"})
	}
}

// ---------------------------------------------------------------------------------------------
// concurrent: two panicking requests inside the same Recovery instance
// ---------------------------------------------------------------------------------------------

type stepCapture struct{ recs *[]string }

func (c stepCapture) Enabled(context.Context, slog.Level) bool { vs.Step("slog.Enabled"); return true }
func (c stepCapture) Handle(_ context.Context, r slog.Record) error {
	vs.Step("slog.Handle")
	var sb strings.Builder
	sb.WriteString(r.Level.String() + " " + r.Message)
	r.Attrs(func(a slog.Attr) bool { sb.WriteString("\n@" + a.Key + "=" + a.Value.String()); return true })
	*c.recs = append(*c.recs, sb.String())
	return nil
}
func (c stepCapture) WithAttrs([]slog.Attr) slog.Handler { return c }
func (c stepCapture) WithGroup(string) slog.Handler      { return c }

func concScenarios() []*mc.Scenario {
	var out []*mc.Scenario
	for _, second := range []string{"panic", "ok", "notfound"} {
		second := second
		out = append(out, &mc.Scenario{
			Name:     "recovery panic || " + second,
			Describe: "two threads serve requests through the same Recovery middleware (scheduling points in the handlers, in the slog handler and in the 500 writer); thread 0 panics, thread 1 " + second,
			Build: func() *mc.Instance {
				var recs []string
				rec := fox.CustomRecoveryWithLogHandler(stepCapture{&recs}, func(c fox.Context, err any) {
					vs.Step("recovery handler")
					fox.DefaultHandleRecovery(c, err)
				})
				f, err := fox.New(fox.WithMiddlewareFor(fox.AllHandlers, rec))
				if err != nil {
					panic(err)
				}
				f.MustHandle("GET", "/boom/{id}", func(c fox.Context) {
					vs.Step("handler")
					panic("value-" + c.Param("id"))
				})
				f.MustHandle("GET", "/fine/{id}", func(c fox.Context) {
					vs.Step("handler")
					c.Writer().WriteHeader(204)
				})
				rws := []*fx.RW{fx.NewRW(), fx.NewRW()}
				paths := []string{"/boom/AAA", map[string]string{"panic": "/boom/BBB", "ok": "/fine/BBB", "notfound": "/nowhere/BBB"}[second]}
				serve := func(i int) func() {
					return func() {
						rq := fx.Req("GET", "", paths[i])
						rq.Header["X-Tok"] = []string{"tok-" + paths[i]}
						f.ServeHTTP(rws[i], rq)
					}
				}
				return &mc.Instance{
					Bodies: []func(){serve(0), serve(1)},
					Check: func(x *mc.Exec) (string, string, string) {
						if x.S.Deadlock {
							return "deadlock", "deadlock", x.S.DeadInfo
						}
						for t := 0; t < 2; t++ {
							if pv, stk := x.S.PanicOf(t); pv != nil {
								return "panic", "panic-escaped", fmt.Sprintf("thread %d: %v\n%s", t, pv, mc.NormStack(stk, 10))
							}
						}
						wantRecs := 1
						wantCode := map[string]int{"panic": 500, "ok": 204, "notfound": 404}[second]
						if second == "panic" {
							wantRecs = 2
						}
						if rws[0].Code != 500 || rws[1].Code != wantCode {
							return "status", "no-500", fmt.Sprintf("statuses %d and %d, want 500 and %d", rws[0].Code, rws[1].Code, wantCode)
						}
						if len(recs) != wantRecs {
							return "count", "record-count", fmt.Sprintf("%d diagnostic records, want %d", len(recs), wantRecs)
						}
						for i, id := range []string{"AAA", "BBB"}[:wantRecs] {
							other := []string{"BBB", "AAA"}[i]
							n := 0
							for _, rc := range recs {
								if !strings.Contains(rc, "value-"+id) {
									continue
								}
								n++
								if strings.Contains(rc, other) || !strings.Contains(rc, "id="+id) || !strings.Contains(rc, "tok-/boom/"+id) || !strings.Contains(rc, "GET /boom/"+id+" HTTP/1.1") {
									return "mixed", "record-mixes-requests", fmt.Sprintf("the record of the panic of request %s is\n%s", id, rc)
								}
							}
							if n != 1 {
								return "count", "record-count", fmt.Sprintf("%d records for the panic of request %s", n, id)
							}
						}
						return "ok " + fmt.Sprint(len(recs)), "", ""
					},
				}
			},
		})
	}
	return out
}

// silence redirects the process's stdout and stderr to /dev/null (fox's default log handler writes
// there) and returns the function that restores them.
func silence() func() {
	restore := captureFDs()
	return func() { restore() }
}

// captureFDs redirects the process's stdout and stderr (where fox's default log handler writes) to an unlinked
// temporary file; the returned function restores them and returns what was written.
func captureFDs() func() string {
	tmp, err := os.CreateTemp("", "c15-capture-*")
	if err != nil {
		return func() string { return "" }
	}
	os.Remove(tmp.Name())
	o1, _ := syscall.Dup(1)
	o2, _ := syscall.Dup(2)
	syscall.Dup2(int(tmp.Fd()), 1)
	syscall.Dup2(int(tmp.Fd()), 2)
	return func() string {
		syscall.Dup2(o1, 1)
		syscall.Dup2(o2, 2)
		syscall.Close(o1)
		syscall.Close(o2)
		tmp.Seek(0, 0)
		b, _ := io.ReadAll(tmp)
		tmp.Close()
		return string(b)
	}
}

// DefCase is a replayable case of the default-handler part.
type DefCase struct {
	Name     string `json:"param_name"`
	CatchAll bool   `json:"catch_all"`
	Val      int    `json:"val"`
	Header   bool   `json:"header_written"`
	Logger   bool   `json:"with_logger"`
	// Pad: size of an ordinary request header (the request dump is part of the record)
	Pad int `json:"pad,omitempty"`
}

var defNames = []string{"id", "method", "status", "location", "latency", "error", "route", "params", "host", "path", "stack", "msg", "time", "level", "source"}

// evalDefault: Recovery() (and optionally Logger()) with fox's own default log handler, on a route
// whose parameter is named like one of the attribute keys the handler formats specially.
var ansiRe = regexp.MustCompile("\x1b\\[[0-9;]*m")

func evalDefault(cs DefCase) (string, string) {
	pvs := panicVals()
	pv := pvs[cs.Val]
	thrown := pv.mk()
	opts := []fox.GlobalOption{fox.WithMiddleware(fox.Recovery())}
	if cs.Logger {
		opts = []fox.GlobalOption{fox.WithMiddleware(fox.Recovery(), fox.Logger())}
	}
	f, err := fox.New(opts...)
	if err != nil {
		return "error", err.Error()
	}
	pat := "/p/{" + cs.Name + "}"
	if cs.CatchAll {
		pat = "/p/*{" + cs.Name + "}"
	}
	if _, err := f.Handle("GET", pat, func(c fox.Context) {
		if cs.Header {
			c.Writer().WriteHeader(202)
		}
		panic(thrown)
	}); err != nil {
		return "error", err.Error()
	}
	desc := fmt.Sprintf("panic(%s) in the handler of %s (header written: %v, Logger installed: %v, %d-byte padding header), default log handler", pv.name, pat, cs.Header, cs.Logger, cs.Pad)
	rw := fx.NewRW()
	var escaped any
	didPanic := false
	rq := fx.Req("GET", "example.test", "/p/250ms")
	rq.Header.Set("Authorization", "Bearer SECRET-VALUE")
	if cs.Pad > 0 {
		rq.Header.Set("X-Pad", strings.Repeat("p", cs.Pad))
	}
	restore := captureFDs()
	func() {
		defer func() {
			if p := recover(); p != nil {
				escaped, didPanic = p, true
			}
		}()
		f.ServeHTTP(rw, rq)
	}()
	logged := restore()
	if !pv.abort && !didPanic {
		// the record of the default handler names the route, its parameter and the request line, carries the
		// panic value and no credential
		plain := ansiRe.ReplaceAllString(logged, "")
		for _, must := range []string{pat, "250ms", "GET /p/250ms"} {
			if !strings.Contains(plain, must) {
				return "record-incomplete", fmt.Sprintf("the logged record (%d bytes) does not contain %q: %s", len(plain), must, desc)
			}
		}
		if strings.Count(plain, "250ms") < 2 {
			return "record-incomplete", fmt.Sprintf("the logged record (%d bytes) names the request line but not the parameter value: %s", len(plain), desc)
		}
		if e, ok := thrown.(error); ok && !strings.Contains(plain, e.Error()) {
			return "record-incomplete", fmt.Sprintf("the logged record (%d bytes) does not carry the panic value %q: %s", len(plain), e.Error(), desc)
		}
		if strings.Contains(plain, "SECRET-VALUE") {
			return "secret-logged", "the logged record contains the Authorization value: " + desc
		}
	}
	if pv.abort {
		if !didPanic || escaped != thrown {
			return "abort-not-reraised", fmt.Sprintf("http.ErrAbortHandler must be re-raised unchanged, got %v: %s", escaped, desc)
		}
		return "", ""
	}
	if didPanic {
		return "panic-escaped", fmt.Sprintf("the panic escaped ServeHTTP (%v): %s", escaped, desc)
	}
	want := 500
	if cs.Header {
		want = 202
	}
	if pv.broken && !cs.Header {
		want = 0
	}
	if !pv.gray && rw.Code != want {
		return "no-500", fmt.Sprintf("status %d, want %d: %s", rw.Code, want, desc)
	}
	return "", ""
}

func runDefault(c *mc.Ctx, r *mc.Result) {
	pvs := panicVals()
	r.Bounds["default-handler"] = fmt.Sprintf("%d parameter names (attribute keys of the log records and others) x {parameter, catch-all} x %d panic values x {nothing written, header written} x {Recovery, Recovery+Logger} (+ request heads padded to 8..70 KiB), with fox's default log handler whose output is captured: the record names route, parameter value and request line, carries the panic value and no credential", len(defNames), len(pvs))
	idx := 0
	for _, n := range defNames {
		for _, ca := range []bool{false, true} {
			for vi := range pvs {
				for _, hd := range []bool{false, true} {
					for _, lg := range []bool{false, true} {
						idx++
						if !c.Mine(idx) {
							continue
						}
						// request heads below, around and above the 16 KiB buffer the pretty handler pools
						for _, pad := range []int{0, 8 << 10, 15 << 10, 16 << 10, 20 << 10, 70 << 10} {
							if pad != 0 && (vi > 1 || lg) {
								continue // padded heads with the first two panic values, Recovery alone
							}
							cs := DefCase{Name: n, CatchAll: ca, Val: vi, Header: hd, Logger: lg, Pad: pad}
							class, msg := evalDefault(cs)
							r.Evaluations++
							r.DistinctNontrivial++
							if class != "" {
								r.Violate("default-handler", class, msg, cs)
							}
						}
					}
				}
			}
		}
	}
}

func init() {
	mc.Register(&mc.Check{
		ID:    "C15",
		Level: "fault_enumeration",
		Rule:  "complete product panic value x response progress at the time of the panic x panic site (handler kinds and scopes, user code run while a handler registers routes) x spelling of each credential-bearing request header, plus a panic after every prefix of an Updates / View function body; the same containment on fox's own default log handler with parameters named like the record's attribute keys (part default-handler); every case is a distinct fault; all are non-trivial (a panic is injected in each)",
		Assumptions: []string{
			"a panic value that merely wraps a broken-connection *net.OpError is not decided by the statement (abstained for the 500 rule only)",
			"lock release is decided by the shim (locking a held mutex panics instead of hanging)",
		},
		Parts: []mc.Part{{Name: "faults", Run: func(c *mc.Ctx, r *mc.Result) {
			un := mc.DeterministicPools()
			defer un()
			run(c, r)
		}, Replay: func(c *mc.Ctx, raw json.RawMessage) string {
			un := mc.DeterministicPools()
			defer un()
			var probe map[string]any
			json.Unmarshal(raw, &probe)
			if sq, ok := probe["managed_seq"].([]any); ok {
				var seq []int
				for _, x := range sq {
					seq = append(seq, int(x.(float64)))
				}
				seed, _ := probe["seed"].(float64)
				_, msg := evalManagedSeq(int(seed), seq)
				return msg
			}
			if probe["managed"] == true {
				_, msg := evalManaged(probe["view"] == true, int(probe["prefix"].(float64)))
				return msg
			}
			var cs Case
			if err := json.Unmarshal(raw, &cs); err != nil {
				return "bad case"
			}
			_, msg := evalCase(cs)
			return msg
		}}, {Name: "concurrent", Run: func(c *mc.Ctx, r *mc.Result) {
			bound := 3
			if c.Quick() {
				bound = 2
			}
			for _, sc := range concScenarios() {
				mc.Explore(c, r, "concurrent", sc, mc.ExploreOpts{Bound: bound})
			}
		}, Replay: func(c *mc.Ctx, raw json.RawMessage) string { return mc.ReplaySched(concScenarios(), raw) }}, {Name: "default-handler", Run: runDefault, Replay: func(c *mc.Ctx, raw json.RawMessage) string {
			var cs DefCase
			if err := json.Unmarshal(raw, &cs); err != nil {
				return "bad case"
			}
			_, msg := evalDefault(cs)
			return msg
		}}},
	})
}
