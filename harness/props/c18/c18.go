// Package c18: client-IP resolvers return exactly the designated, unspoofable entry.
package c18

import (
	"encoding/json"
	"errors"
	"fmt"
	"math"
	"math/big"
	"math/bits"
	"net"
	"net/netip"
	"sort"
	"strings"

	"github.com/tigerwill90/fox"
	"github.com/tigerwill90/fox/clientip"

	"verifharness/fx"
	"verifharness/mc"
	"verifharness/ref"
)

var tokens = []string{"1.1.1.1", "8.8.4.4", "10.0.0.1", "192.168.1.1", "127.0.0.1", "169.254.1.1", "0.0.0.0", "2606:4700::1", "fd00::1",
	"1.1.1.1:8080", "[2606:4700::1]:443", "fe80::1%eth0", "::ffff:9.9.9.9", "junk", "", "unknown"}

// fwd renders a token as a Forwarded element in one of several shapes.
func fwd(tok string, shape int) string {
	v := tok
	if strings.Contains(tok, ":") && !strings.HasPrefix(tok, "[") && strings.Count(tok, ":") > 1 {
		v = "[" + tok + "]"
	}
	q := `"` + v + `"`
	switch shape % 12 {
	case 8:
		return ";for=" + q // an empty parameter (no '=') in front: skipped
	case 9:
		return "secure;for=" + q // a parameter without '=' in front: skipped
	case 10:
		return "by=203.0.113.9; ;for=" + q // a blank parameter between two others
	case 11:
		return "proto=https;;host=h;for=" + q // an empty parameter counts among the first four
	case 5:
		return "a=1;b=2;c=3;for=" + q // exactly the fourth parameter, last
	case 6:
		return "a=1;b=2;c=3;for=" + q + ";e=5" // the fourth parameter, more follow
	case 7:
		return "by=203.0.113.9;host=h;proto=https;for=" + q + ";" // the fourth parameter, a bare ';' follows
	case 0:
		return "for=" + q
	case 1:
		return "For=" + q
	case 2:
		return "by=203.0.113.9;for=" + q + ";proto=https"
	case 3:
		return "a=1;b=2;c=3;d=4;for=" + q // the for parameter is beyond the first four: no address
	}
	if strings.ContainsAny(v, "[:") {
		return "for=" + q
	}
	return "for=" + v // unquoted token form
}

func toPrefixes(ns []net.IPNet) []netip.Prefix {
	var out []netip.Prefix
	for _, n := range ns {
		a, _ := netip.AddrFromSlice(n.IP)
		ones, _ := n.Mask.Size()
		out = append(out, netip.PrefixFrom(a.Unmap(), ones))
	}
	return out
}

func satInt(u uint) int {
	if u > math.MaxInt {
		return math.MaxInt
	}
	return int(u)
}

type rdef struct {
	name string
	mk   func(key clientip.HeaderKey) (fox.ClientIPResolver, error)
	ref  func(es []ref.Entry) (netip.Addr, bool)
	// stable: once the reference selects an entry (or fails on an invalid entry), nothing placed to the left may change the result
	rightmost bool
}

var customTrusted = []string{"10.0.0.0/8", "192.168.0.0/16", "fd00::/8", "127.0.0.1"}

func resolvers() []rdef {
	tables := clientip.VerifDefaultRanges()
	pl := toPrefixes(tables["privateAndLocal"])
	priv, loop, link := toPrefixes(tables["private"]), toPrefixes(tables["loopback"]), toPrefixes(tables["linkLocal"])
	var out []rdef
	// counts and limits are uint in the API: values beyond the int range are part of the domain (the reference
	// saturates them at MaxInt, which no list reaches)
	for _, n := range []uint{1, 2, 3, 1 << (bits.UintSize - 1), math.MaxUint} {
		n := n
		out = append(out, rdef{name: fmt.Sprintf("RightmostTrustedCount(%d)", n), rightmost: true,
			mk: func(k clientip.HeaderKey) (fox.ClientIPResolver, error) {
				return clientip.NewRightmostTrustedCount(k, n)
			},
			ref: func(es []ref.Entry) (netip.Addr, bool) { return ref.RightmostTrustedCount(es, satInt(n)) }})
	}
	for mask := 0; mask < 8; mask++ {
		mask := mask
		var rs []netip.Prefix
		if mask&1 != 0 {
			rs = append(rs, loop...)
		}
		if mask&2 != 0 {
			rs = append(rs, link...)
		}
		if mask&4 != 0 {
			rs = append(rs, priv...)
		}
		if len(rs) == 0 {
			rs = pl
		}
		out = append(out, rdef{name: fmt.Sprintf("RightmostNonPrivate(loopback=%v,linklocal=%v,private=%v)", mask&1 != 0, mask&2 != 0, mask&4 != 0), rightmost: true,
			mk: func(k clientip.HeaderKey) (fox.ClientIPResolver, error) {
				return clientip.NewRightmostNonPrivate(k, clientip.TrustLoopback(mask&1 != 0), clientip.TrustLinkLocal(mask&2 != 0), clientip.TrustPrivateNet(mask&4 != 0))
			},
			ref: func(es []ref.Entry) (netip.Addr, bool) { return ref.RightmostNonPrivate(es, rs) }})
		for _, limit := range []uint{1, 2, 3, 1 << (bits.UintSize - 1), math.MaxUint} {
			limit := limit
			out = append(out, rdef{name: fmt.Sprintf("LeftmostNonPrivate(limit=%d,loopback=%v,linklocal=%v,private=%v)", limit, mask&1 != 0, mask&2 != 0, mask&4 != 0),
				mk: func(k clientip.HeaderKey) (fox.ClientIPResolver, error) {
					return clientip.NewLeftmostNonPrivate(k, limit, clientip.ExcludeLoopback(mask&1 != 0), clientip.ExcludeLinkLocal(mask&2 != 0), clientip.ExcludePrivateNet(mask&4 != 0))
				},
				ref: func(es []ref.Entry) (netip.Addr, bool) { return ref.LeftmostNonPrivate(es, rs, satInt(limit)) }})
		}
	}
	nets, err := clientip.AddressesAndRangesToIPNets(customTrusted...)
	if err != nil {
		panic(err)
	}
	ct := toPrefixes(nets)
	out = append(out, rdef{name: "RightmostTrustedRange(custom)", rightmost: true,
		mk: func(k clientip.HeaderKey) (fox.ClientIPResolver, error) {
			return clientip.NewRightmostTrustedRange(k, clientip.TrustedIPRangeFunc(func() ([]net.IPNet, error) { return nets, nil }))
		},
		ref: func(es []ref.Entry) (netip.Addr, bool) { return ref.RightmostTrustedRange(es, ct) }})
	// an empty trusted set: nothing is trusted, the rightmost entry is designated
	for _, variant := range []string{"nil", "empty"} {
		variant := variant
		out = append(out, rdef{name: "RightmostTrustedRange(" + variant + " range list)", rightmost: true,
			mk: func(k clientip.HeaderKey) (fox.ClientIPResolver, error) {
				return clientip.NewRightmostTrustedRange(k, clientip.TrustedIPRangeFunc(func() ([]net.IPNet, error) {
					if variant == "nil" {
						return nil, nil
					}
					return []net.IPNet{}, nil
				}))
			},
			ref: func(es []ref.Entry) (netip.Addr, bool) { return ref.RightmostTrustedRange(es, nil) }})
	}
	// one /32 and one /128 (single addresses), and the whole address space
	single, _ := clientip.AddressesAndRangesToIPNets("10.0.0.1", "fd00::1")
	sp := toPrefixes(single)
	out = append(out, rdef{name: "RightmostTrustedRange(single addresses)", rightmost: true,
		mk: func(k clientip.HeaderKey) (fox.ClientIPResolver, error) {
			return clientip.NewRightmostTrustedRange(k, clientip.TrustedIPRangeFunc(func() ([]net.IPNet, error) { return single, nil }))
		},
		ref: func(es []ref.Entry) (netip.Addr, bool) { return ref.RightmostTrustedRange(es, sp) }})
	out = append(out, rdef{name: "RightmostTrustedRange(failing range source)", rightmost: true,
		mk: func(k clientip.HeaderKey) (fox.ClientIPResolver, error) {
			return clientip.NewRightmostTrustedRange(k, clientip.TrustedIPRangeFunc(func() ([]net.IPNet, error) { return nil, errors.New("no ranges") }))
		},
		ref: func(es []ref.Entry) (netip.Addr, bool) { return netip.Addr{}, false }})
	// a source that fails while handing back part of its list: the error decides, never an address
	out = append(out, rdef{name: "RightmostTrustedRange(range source failing with a partial list)", rightmost: true,
		mk: func(k clientip.HeaderKey) (fox.ClientIPResolver, error) {
			return clientip.NewRightmostTrustedRange(k, clientip.TrustedIPRangeFunc(func() ([]net.IPNet, error) { return nets[:1], errors.New("refresh failed") }))
		},
		ref: func(es []ref.Entry) (netip.Addr, bool) { return netip.Addr{}, false }})
	return out
}

// Case is a replayable header-list case.
type Case struct {
	Resolver  string   `json:"resolver"`
	Forwarded bool     `json:"forwarded"`
	Lines     []string `json:"lines"`
	Prefix    string   `json:"prefix,omitempty"`
}

func call(r fox.ClientIPResolver, hdr string, lines []string, remote string, extra map[string][]string) (res *net.IPAddr, err error, pv any) {
	rq := fx.Req("GET", "", "/")
	if lines != nil {
		rq.Header[hdr] = lines
	}
	for k, v := range extra {
		rq.Header[k] = v
	}
	if remote != "" {
		rq.RemoteAddr = remote
	}
	c := fox.NewTestContextOnly(fx.NewRW(), rq)
	defer func() { pv = recover() }()
	res, err = r.ClientIP(c)
	return
}

func render(a *net.IPAddr, err error) string {
	if err != nil || a == nil {
		return "error"
	}
	return a.String()
}

func want(a netip.Addr, ok bool) string {
	if !ok {
		return "error"
	}
	return a.Unmap().String()
}

func evalLists(rd rdef, res fox.ClientIPResolver, forwarded bool, lines []string) (string, string) {
	hdr := "X-Forwarded-For"
	if forwarded {
		hdr = "Forwarded"
	}
	a, err, pv := call(res, hdr, lines, "", nil)
	if pv != nil {
		return "panic", fmt.Sprintf("%s panicked on %s %q: %v", rd.name, hdr, lines, pv)
	}
	if err != nil && a != nil {
		return "fallback-address", fmt.Sprintf("%s returned both an address (%v) and an error (%v) for %s %q", rd.name, a, err, hdr, lines)
	}
	if err == nil && a == nil {
		return "fallback-address", fmt.Sprintf("%s returned neither an address nor an error for %s %q", rd.name, hdr, lines)
	}
	es := ref.Flatten(lines, forwarded)
	if lines == nil {
		es = nil
	}
	wa, wok := rd.ref(es)
	if g, w := render(a, err), want(wa, wok); g != w {
		return "wrong-entry", fmt.Sprintf("%s on %s %q returned %s, the documented strategy designates %s", rd.name, hdr, lines, g, w)
	}
	return "", ""
}

var attackerPrefixes = []string{"1.1.1.1", "10.0.0.1", "junk", "", ",", ",,", "6.6.6.6,7.7.7.7", `"`, `for="`, `;for=1.1.1.1`, `for=6.6.6.6`, `for="[::1]"`, " ", "127.0.0.1", "1.1.1.1, ", "unknown", "0.0.0.0"}

func runLists(c *mc.Ctx, r *mc.Result) {
	maxEntries := 4
	if c.Quick() {
		maxEntries = 3
	}
	rds := resolvers()
	r.Bounds["lists"] = fmt.Sprintf("all header lists of <=%d entries over a %d-token alphabet, split over 1 or 2 header lines (<=3 entries per line), as X-Forwarded-For and as Forwarded (12 element shapes) x %d resolvers; for the rightmost strategies every list that selects an entry is re-run behind %d attacker prefixes (same line and extra line)", maxEntries, len(tokens), len(rds), len(attackerPrefixes))
	type built struct{ x, f fox.ClientIPResolver }
	bs := make([]built, len(rds))
	for i, rd := range rds {
		x, err1 := rd.mk(clientip.XForwardedForKey)
		f, err2 := rd.mk(clientip.ForwardedKey)
		if err1 != nil || err2 != nil {
			r.Errors = append(r.Errors, fmt.Sprintf("cannot build %s: %v %v", rd.name, err1, err2))
			return
		}
		bs[i] = built{x, f}
	}
	idx := 0
	var cur []string
	var rec func()
	visit := func(entries []string) {
		// split into lines
		var splits [][]string
		n := len(entries)
		if n <= 3 {
			splits = append(splits, []string{strings.Join(entries, ", ")})
			if n >= 1 {
				// optional whitespace is SP / HTAB (RFC 7230)
				splits = append(splits, []string{"\t" + strings.Join(entries, "\t,\t") + "\t"})
			}
		}
		for cut := 1; cut < n; cut++ {
			if cut <= 3 && n-cut <= 3 {
				splits = append(splits, []string{strings.Join(entries[:cut], ","), strings.Join(entries[cut:], " , ")})
			}
		}
		if n == 0 {
			splits = [][]string{nil, {""}}
		}
		for _, lines := range splits {
			for _, forwarded := range []bool{false, true} {
				ls := lines
				if forwarded && lines != nil {
					ls = make([]string, len(lines))
					k := 0
					for li, l := range lines {
						parts := strings.Split(l, ",")
						for pi := range parts {
							parts[pi] = fwd(strings.TrimSpace(parts[pi]), k+idx)
							k++
						}
						ls[li] = strings.Join(parts, ", ")
					}
				}
				for i, rd := range rds {
					res := bs[i].x
					if forwarded {
						res = bs[i].f
					}
					class, msg := evalLists(rd, res, forwarded, ls)
					r.Evaluations++
					if n >= 2 {
						r.DistinctNontrivial++
					}
					if class != "" {
						r.Violate("lists", class, msg, Case{Resolver: rd.name, Forwarded: forwarded, Lines: ls})
						continue
					}
					// spoofing: nothing to the left of the selected entry matters
					if rd.rightmost && ls != nil && n >= 1 && n <= 3 {
						es := ref.Flatten(ls, forwarded)
						_, selected := rd.ref(es)
						if !selected {
							continue
						}
						hdr := "X-Forwarded-For"
						if forwarded {
							hdr = "Forwarded"
						}
						base, berr, _ := call(res, hdr, ls, "", nil)
						for _, p := range attackerPrefixes {
							for _, sameLine := range []bool{true, false} {
								var ls2 []string
								if sameLine {
									ls2 = append([]string{p + ", " + ls[0]}, ls[1:]...)
								} else {
									ls2 = append([]string{p}, ls...)
								}
								a2, err2, pv := call(res, hdr, ls2, "", nil)
								r.Evaluations++
								if pv != nil || render(a2, err2) != render(base, berr) {
									r.Violate("lists", "spoofable", fmt.Sprintf("%s on %s %q returns %s, but %s (panic=%v) once the attacker prepends %q (%q)", rd.name, hdr, ls, render(base, berr), render(a2, err2), pv, p, ls2), Case{Resolver: rd.name, Forwarded: forwarded, Lines: ls, Prefix: p})
								}
							}
						}
					}
				}
			}
		}
	}
	rec = func() {
		idx++
		if c.Mine(idx) {
			visit(cur)
		}
		if len(cur) == maxEntries {
			return
		}
		for _, t := range tokens {
			cur = append(cur, t)
			rec()
			cur = cur[:len(cur)-1]
		}
	}
	rec()
	if c.Shard == 0 {
		r.Sample(Case{Resolver: "RightmostNonPrivate(default)", Lines: []string{"6.6.6.6", "1.1.1.1, 10.0.0.1"}})
	}
}

// runOthers: single header, chain, remote address.
func runOthers(c *mc.Ctx, r *mc.Result) {
	if c.Shard != 0 {
		return
	}
	r.Bounds["others"] = "SingleIPHeader over all lists of <=2 instances of the token alphabet; RemoteAddr over the token alphabet with ports; Chain over all triples of sub-resolver outcomes, and one Chain over every sequence of <=3 requests with such triples"
	sh, err := clientip.NewSingleIPHeader("X-Real-Ip")
	if err != nil {
		r.Errors = append(r.Errors, err.Error())
		return
	}
	var lists [][]string
	lists = append(lists, nil)
	for _, a := range tokens {
		lists = append(lists, []string{a})
		for _, b := range tokens {
			lists = append(lists, []string{a, b})
		}
	}
	for _, l := range lists {
		a, err, pv := call(sh, "", nil, "", map[string][]string{"X-Real-Ip": l})
		r.Evaluations++
		r.DistinctNontrivial++
		w := "error"
		if len(l) > 0 {
			if ad, ok := ref.ParseEntry(l[len(l)-1]); ok && l[len(l)-1] != "" {
				w = ad.Unmap().String()
			}
		}
		if pv != nil || render(a, err) != w || (err != nil && a != nil) {
			r.Violate("others", "wrong-entry", fmt.Sprintf("SingleIPHeader on X-Real-Ip %q returned %s (panic=%v), want %s (the last instance)", l, render(a, err), pv, w), Case{Resolver: "SingleIPHeader", Lines: l})
		}
	}
	ra := clientip.NewRemoteAddr()
	for _, t := range tokens {
		for _, form := range []string{"%s", "%s:80", "[%s]:80"} {
			remote := fmt.Sprintf(form, t)
			a, err, pv := call(ra, "", nil, remote, nil)
			if remote == "" {
				continue
			}
			r.Evaluations++
			w := "error"
			if ad, ok := ref.ParseEntry(remote); ok {
				w = ad.Unmap().String()
			}
			if pv != nil || render(a, err) != w || (err != nil && a != nil) {
				r.Violate("others", "wrong-entry", fmt.Sprintf("RemoteAddr on %q returned %s (panic=%v), want %s", remote, render(a, err), pv, w), Case{Resolver: "RemoteAddr", Lines: []string{remote}})
			}
		}
	}
	// chain: first success
	mkc := func(ip string) fox.ClientIPResolver {
		return fox.ClientIPResolverFunc(func(fox.Context) (*net.IPAddr, error) {
			if ip == "" {
				return nil, errors.New("fail")
			}
			return &net.IPAddr{IP: net.ParseIP(ip)}, nil
		})
	}
	outcomes := []string{"", "1.1.1.1", "2.2.2.2"}
	for _, a := range outcomes {
		for _, b := range outcomes {
			for _, d := range outcomes {
				ch := clientip.NewChain(mkc(a), mkc(b), mkc(d))
				got, err, pv := call(ch, "", nil, "", nil)
				w := "error"
				for _, x := range []string{a, b, d} {
					if x != "" {
						w = x
						break
					}
				}
				r.Evaluations++
				if pv != nil || render(got, err) != w {
					r.Violate("others", "wrong-entry", fmt.Sprintf("Chain(%q,%q,%q) returned %s, want %s (its first success)", a, b, d, render(got, err), w), Case{Resolver: "Chain", Lines: []string{a, b, d}})
				}
			}
		}
	}
	// one chain serving several requests: the answer for a request is the first success on THAT request, whatever
	// the chain answered before; sub-resolvers read their outcome from a request header; every sequence of 2 and 3
	// requests over the 27 outcome triples
	mkh := func(i int) fox.ClientIPResolver {
		return fox.ClientIPResolverFunc(func(c fox.Context) (*net.IPAddr, error) {
			v := c.Request().Header.Get(fmt.Sprintf("X-R%d", i))
			if v == "" {
				return nil, errors.New("fail")
			}
			return &net.IPAddr{IP: net.ParseIP(v)}, nil
		})
	}
	var triples [][3]string
	for _, a := range outcomes {
		for _, b := range outcomes {
			for _, d := range outcomes {
				triples = append(triples, [3]string{a, b, d})
			}
		}
	}
	shared := clientip.NewChain(mkh(0), mkh(1), mkh(2))
	ask := func(t [3]string) (string, string) {
		extra := map[string][]string{}
		w := "error"
		for i := 2; i >= 0; i-- {
			if t[i] != "" {
				extra[fmt.Sprintf("X-R%d", i)] = []string{t[i]}
				w = t[i]
			}
		}
		got, err, pv := call(shared, "", nil, "", extra)
		if pv != nil {
			return fmt.Sprintf("panic: %v", pv), w
		}
		return render(got, err), w
	}
	var seqs func(prefix [][3]string, n int)
	seqs = func(prefix [][3]string, n int) {
		if len(prefix) > 0 {
			for _, t := range prefix[:len(prefix)-1] {
				ask(t)
			}
			got, w := ask(prefix[len(prefix)-1])
			r.Evaluations++
			r.DistinctNontrivial++
			if got != w {
				r.Violate("others", "wrong-entry", fmt.Sprintf("one Chain asked for the requests %q in turn answered the last one with %s, want %s (the first success on that request)", prefix, got, w), Case{Resolver: "Chain", Lines: []string{fmt.Sprint(prefix)}})
			}
		}
		if len(prefix) == n {
			return
		}
		for _, t := range triples {
			seqs(append(append([][3]string{}, prefix...), t), n)
		}
	}
	seqs(nil, 3)
	empty := clientip.NewChain()
	if got, err, _ := call(empty, "", nil, "", nil); err == nil && got != nil {
		r.Violate("others", "wrong-entry", "empty Chain returned an address", Case{Resolver: "Chain"})
	}
}

// runRanges: the default trusted ranges contain no globally routable address, decided exactly by
// testing one address in every elementary interval induced by all block boundaries.
func runRanges(c *mc.Ctx, r *mc.Result) {
	if c.Shard != 0 {
		return
	}
	tables := clientip.VerifDefaultRanges()
	names := make([]string, 0, len(tables))
	for k := range tables {
		names = append(names, k)
	}
	sort.Strings(names)
	for _, v6 := range []bool{false, true} {
		bits := 32
		if v6 {
			bits = 128
		}
		var bounds []*big.Int
		addPrefix := func(p netip.Prefix) {
			if p.Addr().Is6() != v6 {
				return
			}
			lo := new(big.Int).SetBytes(p.Addr().AsSlice())
			size := new(big.Int).Lsh(big.NewInt(1), uint(bits-p.Bits()))
			hi := new(big.Int).Add(lo, size)
			bounds = append(bounds, lo, hi)
		}
		for _, p := range ref.SpecialPurpose {
			addPrefix(p)
		}
		for _, n := range names {
			for _, p := range toPrefixes(tables[n]) {
				addPrefix(p)
			}
		}
		max := new(big.Int).Lsh(big.NewInt(1), uint(bits))
		bounds = append(bounds, big.NewInt(0), max)
		sort.Slice(bounds, func(i, j int) bool { return bounds[i].Cmp(bounds[j]) < 0 })
		intervals := 0
		for i := 0; i+1 < len(bounds); i++ {
			if bounds[i].Cmp(bounds[i+1]) == 0 || bounds[i].Cmp(max) >= 0 {
				continue
			}
			intervals++
			// the first address of the elementary interval represents all of it
			b := bounds[i].FillBytes(make([]byte, bits/8))
			a, _ := netip.AddrFromSlice(b)
			special := ref.InRanges(a, ref.SpecialPurpose)
			for _, n := range names {
				r.Evaluations++
				if ref.InRanges(a, toPrefixes(tables[n])) && !special {
					last := new(big.Int).Sub(bounds[i+1], big.NewInt(1)).FillBytes(make([]byte, bits/8))
					la, _ := netip.AddrFromSlice(last)
					r.Violate("ranges", "public-range-trusted", fmt.Sprintf("the built-in table %q trusts %s - %s, which lies outside every special-purpose block (IANA registries, multicast, reserved): globally routable addresses are treated as trusted/private", n, a, la), map[string]string{"table": n, "first": a.String()})
				}
			}
		}
		r.Count(fmt.Sprintf("elementary_intervals_v%d", map[bool]int{false: 4, true: 6}[v6]), int64(intervals))
		r.DistinctNontrivial += int64(intervals)
	}
	// behavioural confirmation through the resolver (not only through the tagged table dump):
	// a sample address of every elementary interval of the default table is asked to RightmostNonPrivate
	res, err := clientip.NewRightmostNonPrivate(clientip.XForwardedForKey)
	if err != nil {
		r.Errors = append(r.Errors, err.Error())
		return
	}
	for _, p := range toPrefixes(tables["privateAndLocal"]) {
		for _, a := range []netip.Addr{p.Addr(), lastOf(p)} {
			if a.IsUnspecified() {
				continue
			}
			got, gerr, _ := call(res, "X-Forwarded-For", []string{a.String()}, "", nil)
			r.Evaluations++
			if gerr == nil && !ref.InRanges(a, ref.SpecialPurpose) {
				_ = got
			}
			if gerr != nil && !ref.InRanges(a, ref.SpecialPurpose) {
				r.Violate("ranges", "public-range-trusted", fmt.Sprintf("RightmostNonPrivate (default ranges) refuses the globally routable address %s as trusted (block %s)", a, p), map[string]string{"addr": a.String()})
			}
		}
	}
	r.Bounds["ranges"] = "every elementary interval induced by the boundaries of the built-in tables and of the reference special-purpose table (IANA registries + multicast + reserved), IPv4 and IPv6: membership is constant inside an interval, so one address per interval decides all addresses"
}

func lastOf(p netip.Prefix) netip.Addr {
	b := p.Addr().AsSlice()
	for i := p.Bits(); i < len(b)*8; i++ {
		b[i/8] |= 1 << (7 - i%8)
	}
	a, _ := netip.AddrFromSlice(b)
	return a
}

// runElements: every raw entry string up to a length over an alphabet of quoting, bracket, colon,
// digit and space characters, as the value of a Forwarded "for" parameter (two element shapes) and as
// an X-Forwarded-For entry, alone, left and right of a valid entry, x every resolver.
func runElements(c *mc.Ctx, r *mc.Result) {
	alpha := "\"1:[] ;="
	maxLen := 5
	if c.Quick() {
		maxLen = 4
	}
	rds := resolvers()
	r.Bounds["elements"] = fmt.Sprintf("all entry strings of length<=%d over %q plus 960 compositions {quote, brackets} x 4 addresses x {brackets, port} x {brackets, quote}, as for=V, by=..;for=V;proto=.. and as X-Forwarded-For entry; alone, before and after a valid entry; x %d resolvers", maxLen, alpha, len(rds))
	type built struct{ x, f fox.ClientIPResolver }
	bs := make([]built, len(rds))
	for i, rd := range rds {
		x, err1 := rd.mk(clientip.XForwardedForKey)
		f, err2 := rd.mk(clientip.ForwardedKey)
		if err1 != nil || err2 != nil {
			r.Errors = append(r.Errors, fmt.Sprintf("cannot build %s: %v %v", rd.name, err1, err2))
			return
		}
		bs[i] = built{x, f}
	}
	idx := 0
	var rec func(cur string)
	visit := func(v string) {
		type hv struct {
			forwarded bool
			line      string
		}
		var hs []hv
		for _, el := range []string{"for=" + v, "by=203.0.113.9;for=" + v + ";proto=https"} {
			hs = append(hs, hv{true, el}, hv{true, el + ", for=8.8.4.4"}, hv{true, "for=8.8.4.4, " + el})
		}
		hs = append(hs, hv{false, v}, hv{false, v + ", 8.8.4.4"}, hv{false, "8.8.4.4, " + v})
		for _, h := range hs {
			for i, rd := range rds {
				res := bs[i].x
				if h.forwarded {
					res = bs[i].f
				}
				ls := []string{h.line}
				class, msg := evalLists(rd, res, h.forwarded, ls)
				r.Evaluations++
				r.DistinctNontrivial++
				if class != "" {
					r.Violate("elements", class, msg, Case{Resolver: rd.name, Forwarded: h.forwarded, Lines: ls})
				}
			}
		}
	}
	rec = func(cur string) {
		idx++
		if c.Mine(idx) {
			visit(cur)
		}
		if len(cur) == maxLen {
			return
		}
		for _, ch := range alpha {
			if ch == ',' {
				continue
			}
			rec(cur + string(ch))
		}
	}
	rec("")
	// IPv4 entries followed by two zone separators: not an address for net/netip nor for the
	// net.ParseIP-based parser (zones are kept out of the alphabets otherwise: for one '%' after an IPv4
	// address, and for several after an IPv6 address, the two parsers disagree and the statement does
	// not decide)
	for _, v := range []string{"7.7.7.7%a%b", "10.0.0.1%a%b", "7.7.7.7%%", "[7.7.7.7%a%b]:80"} {
		idx++
		if c.Mine(idx) {
			visit(v)
		}
	}
	// the longest textual forms of an address: fully written IPv6 (39 characters), IPv6 with a dotted-quad tail (up
	// to 45), with zone, brackets and port around them
	for _, core := range []string{"2606:4700:0000:0000:0000:0000:0000:0001", "0000:0000:0000:0000:0000:ffff:188.114.96.10", "0064:ff9b:0000:0000:0000:0000:188.114.196.110",
		"0000:0000:0000:0000:0000:0000:0010.0000.0000.0001", "fe80:0000:0000:0000:0000:0000:0000:0001%eth0", "2606:4700:0000:0000:0000:0000:0000:00001",
		// every spelling of the unspecified address (IPv4, IPv6, IPv4 written inside IPv6) is no address of a client
		"0.0.0.0", "::", "::ffff:0.0.0.0", "::ffff:0:0", "0:0:0:0:0:ffff:0.0.0.0", "0000:0000:0000:0000:0000:ffff:0000:0000", "::0.0.0.0", "0:0:0:0:0:0:0:0", "::%eth0", "::ffff:0.0.0.0%eth0",
		"::ffff:0.0.0.1", "::1.0.0.0"} {
		for _, form := range []string{"%s", "[%s]", "[%s]:443"} {
			idx++
			if c.Mine(idx) {
				visit(fmt.Sprintf(form, core))
			}
		}
	}
	// bracket / port / quote compositions around real addresses (too long for the brute-force part)
	for _, pre := range []string{"", "[", "[[", "\"", "\"[", "[\""} {
		for _, core := range []string{"7.7.7.7", "2606:4700::1", "10.0.0.1", "fe80::1"} {
			for _, mid := range []string{"", "]", "]]", ":80", "]:80", "]]:80", ":80]", "]:80]"} {
				for _, post := range []string{"", "]", "\"", "]\"", "\"]"} {
					idx++
					if c.Mine(idx) {
						visit(pre + core + mid + post)
					}
				}
			}
		}
	}
}

func replayLists(c *mc.Ctx, raw json.RawMessage) string {
	var cs Case
	if err := json.Unmarshal(raw, &cs); err != nil {
		return "bad case"
	}
	for _, rd := range resolvers() {
		if rd.name != cs.Resolver {
			continue
		}
		key := clientip.XForwardedForKey
		if cs.Forwarded {
			key = clientip.ForwardedKey
		}
		res, err := rd.mk(key)
		if err != nil {
			return err.Error()
		}
		if _, msg := evalLists(rd, res, cs.Forwarded, cs.Lines); msg != "" {
			return msg
		}
		if cs.Prefix != "" || rd.rightmost {
			hdr := "X-Forwarded-For"
			if cs.Forwarded {
				hdr = "Forwarded"
			}
			base, berr, _ := call(res, hdr, cs.Lines, "", nil)
			for _, ls2 := range [][]string{append([]string{cs.Prefix + ", " + cs.Lines[0]}, cs.Lines[1:]...), append([]string{cs.Prefix}, cs.Lines...)} {
				a2, err2, pv := call(res, hdr, ls2, "", nil)
				if pv != nil || render(a2, err2) != render(base, berr) {
					return fmt.Sprintf("result %s becomes %s with the attacker prefix %q", render(base, berr), render(a2, err2), cs.Prefix)
				}
			}
		}
		return ""
	}
	r := mc.NewResult()
	cc := *c
	cc.Shard = 0
	runOthers(&cc, r)
	if len(r.Violations) > 0 {
		return r.Violations[0].Msg
	}
	return ""
}

// runConstructions: a resolver is determined by the options it was built with, in whatever order they are given,
// and building one never affects another: every permutation of every non-empty subset of the three range options,
// each enabled or disabled (78 option lists), for RightmostNonPrivate (Trust*) and LeftmostNonPrivate (Exclude*);
// after each construction the new resolver, a resolver built earlier with no option and a fresh one with no option
// are asked about one address of every default table behind a public address.
func runConstructions(c *mc.Ctx, r *mc.Result) {
	if c.Shard != 0 {
		return
	}
	tables := clientip.VerifDefaultRanges()
	pl := toPrefixes(tables["privateAndLocal"])
	tabs := [][]netip.Prefix{toPrefixes(tables["loopback"]), toPrefixes(tables["linkLocal"]), toPrefixes(tables["private"])}
	names := []string{"Loopback", "LinkLocal", "PrivateNet"}
	type optv struct {
		which  int
		enable bool
	}
	var lists [][]optv
	var rec func(cur []optv, used int)
	rec = func(cur []optv, used int) {
		if len(cur) > 0 {
			lists = append(lists, append([]optv{}, cur...))
		}
		for w := 0; w < 3; w++ {
			if used&(1<<w) == 0 {
				rec(append(cur, optv{w, true}), used|1<<w)
				rec(append(cur, optv{w, false}), used|1<<w)
			}
		}
	}
	rec(nil, 0)
	probes := []string{"127.0.0.1", "::1", "169.254.1.1", "fe80::1", "10.0.0.1", "192.168.1.1", "fd00::1", "172.16.0.1", "8.8.4.4", "100.64.0.1"}
	r.Bounds["constructions"] = fmt.Sprintf("%d ordered option lists x {RightmostNonPrivate, LeftmostNonPrivate} x 3 resolvers (the new one, an earlier default one, a fresh default one) x %d probe addresses", len(lists), len(probes))
	for _, left := range []bool{false, true} {
		mkDefault := func() fox.ClientIPResolver {
			if left {
				res, _ := clientip.NewLeftmostNonPrivate(clientip.XForwardedForKey, 3)
				return res
			}
			res, _ := clientip.NewRightmostNonPrivate(clientip.XForwardedForKey)
			return res
		}
		refOf := func(rs []netip.Prefix) func(es []ref.Entry) (netip.Addr, bool) {
			if left {
				return func(es []ref.Entry) (netip.Addr, bool) { return ref.LeftmostNonPrivate(es, rs, 3) }
			}
			return func(es []ref.Entry) (netip.Addr, bool) { return ref.RightmostNonPrivate(es, rs) }
		}
		early := mkDefault()
		for _, l := range lists {
			var rs []netip.Prefix
			var desc []string
			var res fox.ClientIPResolver
			var err error
			if left {
				var opts []clientip.BlacklistRangeOption
				for _, o := range l {
					opts = append(opts, []func(bool) clientip.BlacklistRangeOption{clientip.ExcludeLoopback, clientip.ExcludeLinkLocal, clientip.ExcludePrivateNet}[o.which](o.enable))
					desc = append(desc, fmt.Sprintf("Exclude%s(%v)", names[o.which], o.enable))
				}
				res, err = clientip.NewLeftmostNonPrivate(clientip.XForwardedForKey, 3, opts...)
			} else {
				var opts []clientip.TrustedRangeOption
				for _, o := range l {
					opts = append(opts, []func(bool) clientip.TrustedRangeOption{clientip.TrustLoopback, clientip.TrustLinkLocal, clientip.TrustPrivateNet}[o.which](o.enable))
					desc = append(desc, fmt.Sprintf("Trust%s(%v)", names[o.which], o.enable))
				}
				res, err = clientip.NewRightmostNonPrivate(clientip.XForwardedForKey, opts...)
			}
			if err != nil {
				r.Violate("constructions", "error", fmt.Sprintf("constructor failed for %v: %v", desc, err), Case{Resolver: strings.Join(desc, ",")})
				continue
			}
			for _, o := range l {
				if o.enable {
					rs = append(rs, tabs[o.which]...)
				}
			}
			if len(rs) == 0 {
				rs = pl
			}
			for ri, rr := range []struct {
				name string
				res  fox.ClientIPResolver
				rs   []netip.Prefix
			}{{"the resolver built with " + strings.Join(desc, ", "), res, rs}, {"a resolver built earlier without options, after building one with " + strings.Join(desc, ", "), early, pl}, {"a resolver built without options after one with " + strings.Join(desc, ", "), mkDefault(), pl}} {
				for _, pa := range probes {
					lines := []string{"8.8.8.8, " + pa}
					if left {
						lines = []string{pa + ", 8.8.8.8"}
					}
					class, msg := evalLists(rdef{name: rr.name, ref: refOf(rr.rs)}, rr.res, false, lines)
					r.Evaluations++
					if ri == 0 {
						r.DistinctNontrivial++
					}
					if class != "" {
						r.Violate("constructions", class, msg, Case{Resolver: rr.name, Lines: lines})
					}
				}
			}
		}
	}
}

func init() {
	mc.Register(&mc.Check{
		ID:    "C18",
		Level: "exploration",
		Rule: "every header list up to a number of entries over a 16-token alphabet (valid/invalid/private/public IPv4 and IPv6, ports, brackets, zones, mapped addresses, junk, empty), as X-Forwarded-For and as Forwarded, over one or two header lines, plus every raw entry string up to a length over a quoting/bracket/colon alphabet (part elements), x every resolver configuration (counts, limits, all subsets of the range options, custom and failing trusted ranges), compared with reference strategies; every selecting list re-run behind every attacker prefix; default-range audit exhaustive by elementary intervals; " +
			"non-trivial = lists of >=2 entries; every elementary interval",
		Assumptions: []string{
			"reference strategies over net/netip on the flattened entry list; reference entry syntax: address, address:port, [v6], [v6]:port, zone allowed, unspecified = invalid",
			"'globally routable' = outside every block of the IANA IPv4/IPv6 special-purpose registries, multicast and class E; anycast exceptions inside reserved blocks (e.g. 192.0.0.9/32) are not counted against the tables",
			"the built-in tables are read through a tag-guarded hook to obtain exact interval boundaries",
		},
		Parts: []mc.Part{
			{Name: "lists", Run: runLists, Replay: replayLists},
			{Name: "elements", Run: runElements, Replay: replayLists},
			{Name: "others", Run: runOthers, Replay: replayLists},
			{Name: "constructions", Run: runConstructions, Replay: func(c *mc.Ctx, raw json.RawMessage) string {
				r := mc.NewResult()
				cc := *c
				cc.Shard = 0
				runConstructions(&cc, r)
				if len(r.Violations) > 0 {
					return r.Violations[0].Msg
				}
				return ""
			}},
			{Name: "ranges", Run: runRanges, Replay: func(c *mc.Ctx, raw json.RawMessage) string {
				r := mc.NewResult()
				cc := *c
				cc.Shard = 0
				runRanges(&cc, r)
				if len(r.Violations) > 0 {
					return r.Violations[0].Msg
				}
				return ""
			}},
		},
	})
}
