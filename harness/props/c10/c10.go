// Package c10: patterns are accepted exactly per the grammar and every accepted one is routable.
package c10

import (
	"encoding/json"
	"errors"
	"fmt"
	"strings"
	"verifharness/gen"

	"github.com/tigerwill90/fox"

	"verifharness/fx"
	"verifharness/mc"
	"verifharness/ref"
)

var sigma = []byte{'/', '{', '}', '*', 'a', '.', '-', '1'}

type limits struct {
	MaxParams int `json:"max_params"` // -1 = default (unlimited)
	MaxKey    int `json:"max_key"`
}

var limitSets = []limits{{-1, -1}, {0, -1}, {1, -1}, {2, -1}, {-1, 1}, {-1, 2}, {1, 1}, {2, 2}}

func router(l limits) *fox.Router {
	var opts []fox.GlobalOption
	if l.MaxParams >= 0 {
		opts = append(opts, fox.WithMaxRouteParams(uint16(l.MaxParams)))
	}
	if l.MaxKey >= 0 {
		opts = append(opts, fox.WithMaxRouteParamKeyBytes(uint16(l.MaxKey)))
	}
	f, err := fox.New(opts...)
	if err != nil {
		panic(err)
	}
	return f
}

// Case: a pattern string (as bytes, it may be invalid UTF-8) and a limit set.
type Case struct {
	Pattern []byte `json:"pattern"`
	Lim     limits `json:"lim"`
	// Big, when >0: the pattern is Big wildcards (shape BigShape) instead of Pattern
	Big      int `json:"big,omitempty"`
	BigShape int `json:"big_shape,omitempty"`
}

// bigPattern builds a pattern with n wildcards.
func bigPattern(n, shape int) string {
	switch shape {
	case 1: // hostname parameters first (one per label), then path parameters
		k := min(n, 100)
		return strings.Repeat("{h}.", k-1) + "{h}" + strings.Repeat("/{p}", n-k) + "/"
	case 2: // a catch-all at the end
		return strings.Repeat("/{p}", n-1) + "/*{w}"
	}
	return strings.Repeat("/{p}", n)
}

// evalBig: the configured limit on the number of parameters at the width of its type (the default
// and the largest configurable limit are 65535): a pattern with n wildcards is accepted exactly when
// n <= limit, and an accepted route reports ParamsLen() == n.
func evalBig(n, shape int, l limits) (string, string) {
	limit := 65535
	if l.MaxParams >= 0 {
		limit = l.MaxParams
	}
	f := router(l)
	pat := bigPattern(n, shape)
	var rt *fox.Route
	var err error
	var pv any
	func() {
		defer func() { pv = recover() }()
		rt, err = f.NewRoute(pat, h)
	}()
	desc := fmt.Sprintf("a pattern with %d wildcards (shape %d, %d bytes) under the parameter limit %d (%+v)", n, shape, len(pat), limit, l)
	if pv != nil {
		return "panic", fmt.Sprintf("NewRoute panicked (%v): %s", pv, desc)
	}
	if n > limit {
		if err == nil {
			return "accepts-invalid", fmt.Sprintf("accepted (ParamsLen()=%d): %s", rt.ParamsLen(), desc)
		}
		if !errors.Is(err, fox.ErrTooManyParams) || !errors.Is(err, fox.ErrInvalidRoute) {
			return "wrong-error", fmt.Sprintf("rejected with %v, want ErrTooManyParams (an ErrInvalidRoute): %s", err, desc)
		}
		return "", ""
	}
	if err != nil {
		return "rejects-valid", fmt.Sprintf("rejected (%v): %s", err, desc)
	}
	if rt.ParamsLen() != n {
		return "wrong-params-len", fmt.Sprintf("ParamsLen() = %d: %s", rt.ParamsLen(), desc)
	}
	return "", ""
}

var h = func(c fox.Context) {}

// checkAccept compares acceptance with the reference grammar; returns (gray, accepted, class, msg).
func checkAccept(f *fox.Router, s string, l limits) (bool, bool, string, string) {
	var err error
	var pv any
	func() {
		defer func() { pv = recover() }()
		_, err = f.NewRoute(s, h)
	}()
	if pv != nil {
		return false, false, "panic", fmt.Sprintf("NewRoute(%q) panicked: %v", s, pv)
	}
	// the default limits are the width of their type
	rl := ref.Limits{MaxParams: l.MaxParams, MaxKeyBytes: l.MaxKey}
	if rl.MaxParams < 0 {
		rl.MaxParams = 65535
	}
	if rl.MaxKeyBytes < 0 {
		rl.MaxKeyBytes = 65535
	}
	p, rerr := ref.Parse(s, rl)
	if rerr == nil && p.Gray != "" {
		return true, err == nil, "", ""
	}
	if err != nil && !errors.Is(err, fox.ErrInvalidRoute) {
		return false, false, "wrong-error", fmt.Sprintf("NewRoute(%q) returned %v, want an error matching ErrInvalidRoute", s, err)
	}
	if (err == nil) != (rerr == nil) {
		if err == nil {
			return false, true, "accepts-invalid", fmt.Sprintf("pattern %q (limits %+v) is accepted, but the grammar rejects it: %v", s, l, rerr)
		}
		return false, false, "rejects-valid", fmt.Sprintf("pattern %q (limits %+v) is rejected (%v), but it follows the grammar", s, l, err)
	}
	return false, err == nil, "", ""
}

// checkRegister: Handle on an empty router then Delete; never panics, consistent with NewRoute.
func checkRegister(s string, l limits, accepted bool) (string, string) {
	f := router(l)
	var err, derr error
	var pv any
	func() {
		defer func() { pv = recover() }()
		_, err = f.Handle("GET", s, h)
		if err == nil {
			if !f.Has("GET", s) {
				err = errors.New("registered but Has() is false")
			}
			_, derr = f.Delete("GET", s)
		}
	}()
	if pv != nil {
		return "panic", fmt.Sprintf("Handle/Delete(%q) panicked: %v", s, pv)
	}
	if (err == nil) != accepted {
		return "handle-disagrees", fmt.Sprintf("NewRoute accepted=%v but Handle(%q) on an empty router returned %v", accepted, s, err)
	}
	if err == nil && derr != nil {
		return "delete-fails", fmt.Sprintf("Delete(%q) right after Handle returned %v", s, derr)
	}
	if f.Len() != 0 {
		return "delete-fails", fmt.Sprintf("router not empty after Handle+Delete of %q", s)
	}
	return "", ""
}

// checkRoutable: the pattern alone routes every instantiation to itself.
func checkRoutable(s string) (int, string, string) {
	p, err := ref.Parse(s, ref.NoLimits)
	if err != nil || p.Gray != "" {
		return 0, "", ""
	}
	f := router(limits{-1, -1})
	if _, err := f.Handle("GET", s, h); err != nil {
		return 0, "", ""
	}
	n := len(p.Names)
	vals := make([]string, n)
	kinds := make([]int, 0, n)
	for _, t := range append(append([]ref.Token{}, p.HostToks...), p.PathToks...) {
		if t.Kind != ref.Static {
			kinds = append(kinds, t.Kind)
		}
	}
	nHostParams := 0
	for _, t := range p.HostToks {
		if t.Kind != ref.Static {
			nHostParams++
		}
	}
	count := 0
	var class, msg string
	var rec func(i int)
	rec = func(i int) {
		if class != "" {
			return
		}
		if i == n {
			count++
			host, path := p.Substitute(vals)
			rt, cc, tsr := f.Lookup(fx.WrapRW(fx.NewRW()), fx.Req("GET", host, path))
			if rt == nil || tsr || rt.Pattern() != s {
				class, msg = "not-routable", fmt.Sprintf("pattern %q alone does not route its own instantiation %q%q (values %v): route=%v tsr=%v", s, host, path, vals, rt != nil, tsr)
				if cc != nil {
					cc.Close()
				}
				return
			}
			var got []string
			gi := 0
			okNames := true
			for pr := range cc.Params() {
				if gi >= n || pr.Key != p.Names[gi] {
					okNames = false
				}
				got = append(got, pr.Value)
				gi++
			}
			cc.Close()
			if !okNames || len(got) != n {
				class, msg = "wrong-values", fmt.Sprintf("pattern %q request %q%q: reported %d values %v, pattern has names %v", s, host, path, len(got), got, p.Names)
				return
			}
			h2, p2 := p.Substitute(got)
			if h2 != host || p2 != path {
				class, msg = "wrong-values", fmt.Sprintf("pattern %q request %q%q: reported values %v do not reproduce the request", s, host, path, got)
				return
			}
			if !p.HasCatchAllFollowedByText() {
				for k := range got {
					if got[k] != vals[k] {
						class, msg = "wrong-values", fmt.Sprintf("pattern %q request %q%q: reported values %v, substituted %v", s, host, path, got, vals)
						return
					}
				}
			}
			return
		}
		choices := []string{"a", "b", "ab"}
		if kinds[i] == ref.CatchAll {
			choices = append(choices, "a/b")
		}
		if i < nHostParams {
			choices = append(choices, "1", "10") // digits-only labels (IP-like hosts)
		}
		for _, c := range choices {
			vals[i] = c
			rec(i + 1)
		}
	}
	rec(0)
	return count, class, msg
}

func runGrammar(c *mc.Ctx, r *mc.Result) {
	maxLen := 8
	routableLen := 7
	if c.Quick() {
		maxLen = 7
		routableLen = 6
	}
	r.Bounds["grammar"] = fmt.Sprintf("all strings of length<=%d over %q x %d limit sets through NewRoute; accepted ones through Handle+Delete on an empty router; accepted ones of length<=%d instantiated with every value combination from {a,b,ab} (catch-alls also a/b)", maxLen, string(sigma), len(limitSets), routableLen)
	routers := make([]*fox.Router, len(limitSets))
	for i, l := range limitSets {
		routers[i] = router(l)
	}
	buf := make([]byte, 0, maxLen)
	stopped := false
	shard := 0
	var rec func()
	rec = func() {
		if stopped {
			return
		}
		s := string(buf)
		for li, l := range limitSets {
			gray, acc, class, msg := checkAccept(routers[li], s, l)
			r.Evaluations++
			if gray {
				r.Abstained++
				continue
			}
			if strings.ContainsAny(s, "{*") {
				r.DistinctNontrivial++
			}
			if class != "" {
				r.Violate("grammar", class, msg, Case{Pattern: []byte(s), Lim: l})
				continue
			}
			if acc || li == 0 {
				if cl, m := checkRegister(s, l, acc); cl != "" {
					r.Violate("grammar", cl, m, Case{Pattern: []byte(s), Lim: l})
				}
			}
			if acc && li == 0 && len(s) <= routableLen {
				n, cl, m := checkRoutable(s)
				r.Count("instantiations", int64(n))
				if cl != "" {
					r.Violate("grammar", cl, m, Case{Pattern: []byte(s), Lim: l})
				}
				r.Count("accepted_patterns", 1)
			}
		}
		if len(buf) == maxLen {
			return
		}
		for _, b := range sigma {
			buf = append(buf, b)
			rec()
			buf = buf[:len(buf)-1]
		}
	}
	for _, a := range sigma {
		for _, b := range sigma {
			shard++
			if !c.Mine(shard) {
				continue
			}
			if c.Expired() {
				stopped = true
				r.NotExhaustive = append(r.NotExhaustive, "grammar: time guard")
				return
			}
			buf = append(buf[:0], a, b)
			rec()
		}
	}
	if c.Shard == 0 {
		for _, s := range []string{""} {
			buf = append(buf[:0], s...)
			_, _, class, msg := checkAccept(routers[0], s, limitSets[0])
			if class != "" {
				r.Violate("grammar", class, msg, Case{Pattern: []byte(s), Lim: limitSets[0]})
			}
		}
		for _, a := range sigma {
			_, acc, class, msg := checkAccept(routers[0], string(a), limitSets[0])
			r.Evaluations++
			if class != "" {
				r.Violate("grammar", class, msg, Case{Pattern: []byte{a}, Lim: limitSets[0]})
			} else if cl, m := checkRegister(string(a), limitSets[0], acc); cl != "" {
				r.Violate("grammar", cl, m, Case{Pattern: []byte{a}, Lim: limitSets[0]})
			}
		}
		r.Sample(map[string]any{"pattern": "/a{a}/*{1}", "limits": limitSets[3]})
	}
}

// runBytes: crash-freedom and reference agreement on arbitrary bytes.
func runBytes(c *mc.Ctx, r *mc.Result) {
	seeds := []string{"/a/{b}/c", "/*{w}/x", "a.b/c", "{h}.b/{x}", "/a*{w}", "a-1.b/", "/{x}/*{y}/z", "/a/b", "ab.{c}.d/e/*{f}", "/{ab}/c{d}"}
	r.Bounds["bytes"] = fmt.Sprintf("every 1- and 2-byte string over all 256 byte values (prefixed with nothing and with '/'), and every single-byte substitution (256 values) at every position of %d seed patterns; hostname labels of 61..66 bytes and hostnames of 250..260 bytes in 7 arrangements of letters, digits, hyphens and underscores; patterns of 7..196608 bytes in 5 shapes under 8 limit sets; patterns with 65534..131072 wildcards (3 shapes) against the parameter limits 65534, 65535 and the default", len(seeds))
	f := router(limits{-1, -1})
	try := func(s string) {
		r.Evaluations++
		_, acc, class, msg := checkAccept(f, s, limits{-1, -1})
		if class == "" {
			class, msg = checkRegister(s, limits{-1, -1}, acc)
			// handle/delete disagreement can only be judged when the reference is not gray
			if p, err := ref.Parse(s, ref.NoLimits); err == nil && p.Gray != "" && class == "handle-disagrees" {
				class = ""
			}
		}
		if class != "" {
			r.Violate("bytes", class, msg, Case{Pattern: []byte(s), Lim: limits{-1, -1}})
		}
	}
	idx := 0
	for a := 0; a < 256; a++ {
		idx++
		if !c.Mine(idx) {
			continue
		}
		try(string([]byte{byte(a)}))
		try("/" + string([]byte{byte(a)}))
		for b := 0; b < 256; b++ {
			try(string([]byte{byte(a), byte(b)}))
			try("/" + string([]byte{byte(a), byte(b)}))
		}
	}
	// length limits of hostnames: labels of 61..66 bytes and hostnames of 250..260 bytes, built from
	// letters, digits, hyphens and underscores in several arrangements (the limits count every byte)
	label := func(n int, style int) string {
		b := []byte(strings.Repeat("a", n))
		switch style {
		case 1: // one hyphen near the start
			b[1] = '-'
		case 2: // one hyphen in the middle
			b[n/2] = '-'
		case 3: // one hyphen near the end
			b[n-2] = '-'
		case 4: // every other byte a hyphen
			for i := 1; i < n-1; i += 2 {
				b[i] = '-'
			}
		case 5: // digits and one letter
			for i := 1; i < n; i++ {
				b[i] = '1'
			}
		case 6: // underscores inside
			for i := 1; i < n-1; i += 3 {
				b[i] = '_'
			}
		}
		return string(b)
	}
	if c.Mine(0) {
		for style := 0; style <= 6; style++ {
			for n := 61; n <= 66; n++ {
				l := label(n, style)
				for _, host := range []string{l, "b." + l, l + ".b", l + "." + l} {
					try(host + "/")
					try(host + "/{x}")
					r.DistinctNontrivial++
				}
			}
			for total := 250; total <= 260; total++ {
				var labels []string
				for i := 0; i < 6; i++ {
					labels = append(labels, label(40, style))
				}
				labels = append(labels, label(total-246, style%4)) // 4..14 bytes
				try(strings.Join(labels, ".") + "/")
				r.DistinctNontrivial++
			}
		}
	}
	// long patterns under small and default limits: no length rule exists besides the hostname ones, so a
	// pattern of any length that follows the grammar and the configured limits is accepted by NewRoute and
	// by Handle, and one that exceeds them is rejected: a ladder of lengths around every power of two up
	// to 2^17 in 5 shapes (static text, one-byte parameters, long-key parameters, static text before a
	// catch-all, hostname plus long path)
	if c.Mine(1) {
		longShape := func(n, shape int) string {
			switch shape {
			case 1:
				return strings.Repeat("/{a}", n/4) + "/"
			case 2:
				return "/{" + strings.Repeat("k", max(n-3, 1)) + "}"
			case 3:
				return "/" + strings.Repeat("b", max(n-5, 1)) + "*{w}"
			case 4:
				return "a.b/" + strings.Repeat("c", n)
			}
			return "/" + strings.Repeat("a", n)
		}
		for _, l := range []limits{{-1, -1}, {0, -1}, {1, -1}, {-1, 1}, {1, 1}, {2000, 1}, {40000, 1}, {3, 20000}} {
			fl := router(l)
			for e := 3; e <= 17; e++ {
				for _, n := range []int{1<<e - 1, 1 << e, 1<<e + 1, 3 << (e - 1)} {
					for shape := 0; shape < 5; shape++ {
						pat := longShape(n, shape)
						r.Evaluations++
						r.DistinctNontrivial++
						_, acc, class, msg := checkAccept(fl, pat, l)
						if class == "" {
							class, msg = checkRegister(pat, l, acc)
						}
						if class != "" {
							if len(msg) > 600 {
								msg = msg[:300] + " … " + msg[len(msg)-300:]
							}
							r.Violate("bytes", class, fmt.Sprintf("long pattern (shape %d, %d bytes): %s", shape, len(pat), msg), Case{Pattern: []byte(pat), Lim: l})
						}
					}
				}
			}
		}
	}
	// the parameter-count limit at the width of its type
	bigN := []int{65534, 65535, 65536, 65537, 131071, 131072}
	for bi, n := range bigN {
		for shape := 0; shape < 3; shape++ {
			for li, l := range []limits{{-1, -1}, {65535, -1}, {65534, -1}} {
				if !c.Mine(bi*9 + shape*3 + li) {
					continue
				}
				class, msg := evalBig(n, shape, l)
				r.Evaluations++
				r.DistinctNontrivial++
				if class != "" {
					r.Violate("bytes", class, msg, Case{Big: n, BigShape: shape, Lim: l})
				}
			}
		}
	}
	for _, sd := range seeds {
		for pos := 0; pos < len(sd); pos++ {
			idx++
			if !c.Mine(idx) {
				continue
			}
			for b := 0; b < 256; b++ {
				bs := []byte(sd)
				bs[pos] = byte(b)
				try(string(bs))
				r.DistinctNontrivial++
			}
		}
	}
}

// runStructured: patterns too long for the string enumeration, generated segment by segment: up to four
// segments over {static, parameter, catch-all, prefixed catch-all, prefixed parameter}, with and without a
// trailing slash, alone and behind two hostname shapes; each accepted one is instantiated like in the grammar part
// (one-byte values included, so that every wildcard also gets its shortest possible text).
func runStructured(c *mc.Ctx, r *mc.Result) {
	segs := []string{"a", "{}", "*{}", "a*{}", "a{}", "a}"} // the last one: a static segment ending in a literal closing brace
	depth := 4
	prefixes := []string{"", "{h}.b", "a.{h}", "{h}.{t}.b", "{h}.{t}", "a{h}.{t}.b.{u}"}
	r.Bounds["structured"] = fmt.Sprintf("all patterns of <=%d segments over %v (+ trailing slash variants) x hostname prefixes %q, each accepted one instantiated with every value combination from {a,b,ab} (catch-alls also a/b, hostname labels also 1, 10)", depth, segs, prefixes)
	idx := 0
	fstruct := router(limits{-1, -1})
	for _, pre := range prefixes {
		for _, s := range gen.Patterns(segs, depth, true, pre) {
			idx++
			if !c.Mine(idx) {
				continue
			}
			if c.ExpiredEvery(64) {
				r.NotExhaustive = append(r.NotExhaustive, "structured: time guard")
				return
			}
			// acceptance against the grammar first (these patterns are too long for the string enumeration)
			gray, acc, cl, m := checkAccept(fstruct, s, limits{-1, -1})
			r.Evaluations++
			if cl == "" && !gray {
				cl, m = checkRegister(s, limits{-1, -1}, acc)
			}
			if cl != "" {
				r.Violate("structured", cl, m, Case{Pattern: []byte(s), Lim: limits{-1, -1}})
				continue
			}
			if !acc {
				continue
			}
			n, cl, m := checkRoutable(s)
			r.Evaluations += int64(n)
			r.DistinctNontrivial++
			r.Count("instantiations", int64(n))
			if cl != "" {
				r.Violate("structured", cl, m, Case{Pattern: []byte(s), Lim: limits{-1, -1}})
			}
		}
	}
}

func replay(c *mc.Ctx, raw json.RawMessage) string {
	var cs Case
	if err := json.Unmarshal(raw, &cs); err != nil {
		return "bad case"
	}
	if cs.Big > 0 {
		_, msg := evalBig(cs.Big, cs.BigShape, cs.Lim)
		return msg
	}
	s := string(cs.Pattern)
	_, acc, class, msg := checkAccept(router(cs.Lim), s, cs.Lim)
	if class != "" {
		return msg
	}
	if _, m := checkRegister(s, cs.Lim, acc); m != "" {
		return m
	}
	_, _, m := checkRoutable(s)
	return m
}

func init() {
	mc.Register(&mc.Check{
		ID:    "C10",
		Level: "exploration",
		Rule: "complete enumeration of all strings up to a length over the 8-letter pattern alphabet x 8 limit configurations, compared with a reference recogniser (tokeniser + rule list written from the README); accepted patterns are registered and deleted on an empty router and instantiated with every value combination; plus arbitrary bytes for crash-freedom; plus every pattern of up to four segments over a segment alphabet (several catch-alls and parameters per pattern, hostname prefixes) instantiated the same way; " +
			"non-trivial = the string contains a wildcard opener; byte substitutions count as non-trivial",
		Assumptions: []string{
			"reference grammar from the README; abstained (gray): '_' in host labels, '-' directly before a label parameter",
			"a stray '}' outside a wildcard is static text (the statement does not forbid it)",
		},
		Parts: []mc.Part{{Name: "grammar", Run: runGrammar, Replay: replay}, {Name: "bytes", Run: runBytes, Replay: replay}, {Name: "structured", Run: runStructured, Replay: replay}},
	})
}
