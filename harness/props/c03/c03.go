// Package c03: a published routing state never changes (snapshot immutability).
package c03

import (
	"encoding/json"
	"fmt"
	"runtime/debug"
	"sort"
	"strconv"
	"strings"

	"github.com/tigerwill90/fox"
	vs "github.com/tigerwill90/fox/verifsync"

	"verifharness/conc"
	"verifharness/fx"
	"verifharness/hist"
	"verifharness/mc"
)

var poolPrefix = &hist.Pool{
	Methods:  []string{"GET", "FOO"},
	Patterns: []string{"/a", "/a/", "/a/b", "/a/c", "/a/{x}"},
}

// poolSiblings: many siblings under one node (children slices with spare capacity, re-sorting).
var poolSiblings = &hist.Pool{
	Methods:  []string{"GET", "FOO"},
	Patterns: []string{"/b", "/c", "/d", "/a", "/*{w}"},
}

// poolInfix2: keys with two infix catch-alls inside one tree node (nested precomputed sub-nodes),
// leaves below them.
var poolInfix2 = &hist.Pool{
	Methods:  []string{"GET", "FOO"},
	Patterns: []string{"/*{x}/b/*{y}/c", "/*{x}/b/*{y}/cd", "/*{x}/b/*{y}/c/e", "/*{x}/b/*{y}/cde", "/*{x}/b"},
}

// poolMethods: several custom methods (the method-root slice grows, shrinks and shifts).
var poolMethods = &hist.Pool{
	Methods:  []string{"GET", "FOO", "BAR"},
	Patterns: []string{"/a", "/a/b"},
}

// poolMethods3: three custom methods registered one after the other (FOO with a single route, so that deleting it
// removes its root and shifts the roots behind it); explored with sequences of exactly three operations.
var poolMethods3 = &hist.Pool{
	Methods:  []string{"GET", "FOO", "BAR", "BAZ"},
	Patterns: []string{"/a", "/a/b", "/a/c"},
}

// pool / probes / serveProbe are switched by usePool before a run.
var pool = poolPrefix

func usePool(name string) {
	if name == "siblings" {
		pool = poolSiblings
		probes = []probe{{"GET", "/a"}, {"GET", "/b"}, {"GET", "/c"}, {"GET", "/d"}, {"GET", "/z"}, {"GET", "/z/y"}, {"FOO", "/a"}}
		serveProbe = "/z"
		prefixes = []string{"/", "/a", "/b", "/*"}
		return
	}
	if name == "methods" {
		pool = poolMethods
		probes = []probe{{"GET", "/a"}, {"GET", "/a/b"}, {"FOO", "/a"}, {"BAR", "/a"}, {"BAR", "/a/b"}, {"PUT", "/a"}}
		serveProbe = "/a"
		prefixes = []string{"/", "/a", "/a/"}
		return
	}
	if name == "methods3" {
		pool = poolMethods3
		probes = []probe{{"GET", "/a"}, {"FOO", "/a"}, {"BAR", "/a"}, {"BAR", "/a/b"}, {"BAR", "/a/c"}, {"BAZ", "/a"}, {"BAZ", "/a/b"}, {"BAZ", "/a/c"}, {"FOO", "/a/c"}}
		serveProbe = "/a"
		prefixes = []string{"/", "/a", "/a/"}
		return
	}
	if name == "infix2" {
		pool = poolInfix2
		probes = []probe{{"GET", "/1/b/2/c"}, {"GET", "/1/b/2/cd"}, {"GET", "/1/b/2/c/e"}, {"GET", "/1/b/2/cde"}, {"GET", "/1/b"}, {"GET", "/1/b/2/c/"}, {"FOO", "/a"}}
		serveProbe = "/1/b/2/cd"
		prefixes = []string{"/", "/*{x}/b", "/*{x}/b/*{y}/c", "/*{x}/b/*{y}/cd"}
		return
	}
	pool = poolPrefix
	probes = []probe{{"GET", "/a"}, {"GET", "/a/"}, {"GET", "/a/b"}, {"GET", "/a/c"}, {"GET", "/a/z"}, {"FOO", "/a"}, {"GET", "/a/z/"}}
	serveProbe = "/a/z"
	prefixes = []string{"/", "/a", "/a/", "/a/b", "/a/{"}
}

var serveProbe = "/a/z"
var prefixes = []string{"/", "/a", "/a/", "/a/b", "/a/{"}

type wop struct {
	Kind    int    `json:"kind"`
	Method  string `json:"m,omitempty"`
	Pattern string `json:"p,omitempty"`
}

func (w wop) String() string {
	return hist.Op{Kind: w.Kind, Method: w.Method, Pattern: w.Pattern}.String()
}

func alphabet() []wop {
	var out []wop
	if pool == poolMethods3 {
		return []wop{{Kind: hist.Delete, Method: "FOO", Pattern: "/a"}, {Kind: hist.Handle, Method: "FOO", Pattern: "/a/c"}, {Kind: hist.Truncate, Method: "FOO"},
			{Kind: hist.Handle, Method: "BAR", Pattern: "/a/c"}, {Kind: hist.Update, Method: "BAR", Pattern: "/a"}, {Kind: hist.Delete, Method: "BAR", Pattern: "/a/b"},
			{Kind: hist.Handle, Method: "BAZ", Pattern: "/a/c"}, {Kind: hist.Update, Method: "BAZ", Pattern: "/a/b"}}
	}
	if pool == poolMethods {
		for _, m := range pool.Methods {
			for _, k := range []int{hist.Handle, hist.Update, hist.Delete} {
				out = append(out, wop{Kind: k, Method: m, Pattern: "/a"})
			}
			out = append(out, wop{Kind: hist.Truncate, Method: m})
		}
		out = append(out, wop{Kind: hist.Handle, Method: "BAR", Pattern: "/a/b"}, wop{Kind: hist.Truncate, Method: "FOO,BAR"}, wop{Kind: hist.Truncate})
		return out
	}
	for _, p := range pool.Patterns {
		for _, k := range []int{hist.Handle, hist.Update, hist.Delete} {
			out = append(out, wop{Kind: k, Method: "GET", Pattern: p})
		}
	}
	out = append(out, wop{Kind: hist.Handle, Method: "FOO", Pattern: "/a"}, wop{Kind: hist.Delete, Method: "FOO", Pattern: "/a"},
		wop{Kind: hist.Truncate, Method: "GET"}, wop{Kind: hist.Truncate})
	return out
}

// snapshot kinds
const (
	snapNone = iota
	snapTxnSnapshot
	snapTxnIter
)

// modes
const (
	modeDirect      = iota // operations issued directly on the router
	modeTxnCommit          // operations inside one write transaction, committed
	modeTxnAbort           // ... aborted
	modeInHandler          // operations issued from inside a request handler (the request is the snapshot)
	modeManagedEach        // every operation in a managed transaction of its own (Router.Updates), committed
)

var modeNames = [...]string{"direct", "one-txn-commit", "one-txn-abort", "inside-handler", "one-managed-transaction-per-operation"}

// Case is a replayable sequential case.
type Case struct {
	Pool     string     `json:"pool,omitempty"`
	Seed     []hist.Key `json:"seed"`
	Ops      []wop      `json:"ops"`
	Mode     int        `json:"mode"`
	SnapPos  int        `json:"snap_pos"` // position at which the in-transaction snapshot is taken
	SnapKind int        `json:"snap_kind"`
}

type probe struct{ m, path string }

var probes = []probe{{"GET", "/a"}, {"GET", "/a/"}, {"GET", "/a/b"}, {"GET", "/a/c"}, {"GET", "/a/z"}, {"FOO", "/a"}, {"GET", "/a/z/"}}

func seq(ms ...string) func(func(string) bool) {
	return func(y func(string) bool) {
		for _, m := range ms {
			if !y(m) {
				return
			}
		}
	}
}

// obsIter renders everything observable through an Iter.
func obsIter(it fox.Iter) string {
	var sb strings.Builder
	var ms []string
	for m := range it.Methods() {
		ms = append(ms, m)
	}
	fmt.Fprintf(&sb, "methods=%v\n", ms)
	var all []string
	for m, r := range it.All() {
		all = append(all, fmt.Sprintf("%s %s#%d", m, r.Pattern(), fx.RouteVer(r)))
	}
	fmt.Fprintf(&sb, "all=%v\n", all)
	for _, pre := range prefixes {
		var l []string
		for m, r := range it.Prefix(seq("GET", "FOO"), pre) {
			l = append(l, m+" "+r.Pattern()+"#"+strconv.Itoa(fx.RouteVer(r)))
		}
		fmt.Fprintf(&sb, "prefix %s=%v\n", pre, l)
	}
	for _, pt := range pool.Patterns {
		var l []string
		for m, r := range it.Routes(seq("GET", "FOO"), pt) {
			l = append(l, m+"#"+strconv.Itoa(fx.RouteVer(r)))
		}
		fmt.Fprintf(&sb, "routes %s=%v\n", pt, l)
	}
	for _, p := range probes {
		var l []string
		for _, r := range it.Reverse(seq(p.m), "", p.path) {
			l = append(l, r.Pattern()+"#"+strconv.Itoa(fx.RouteVer(r)))
		}
		fmt.Fprintf(&sb, "reverse %s %s=%v\n", p.m, p.path, l)
	}
	return sb.String()
}

// obsTxn renders everything observable through a read-only transaction / snapshot.
func obsTxn(t *fox.Txn) string {
	var sb strings.Builder
	sb.WriteString(hist.Observe(t, pool))
	for _, p := range probes {
		r, tsr := t.Reverse(p.m, "", p.path)
		lr, cc, ltsr := t.Lookup(fx.WrapRW(fx.NewRW()), fx.Req(p.m, "", p.path))
		params := ""
		if cc != nil {
			for pa := range cc.Params() {
				params += pa.Key + "=" + pa.Value + ","
			}
			cc.Close()
		}
		fmt.Fprintf(&sb, "reverse %s %s=%s#%d tsr=%v lookup=%s#%d tsr=%v [%s]\n", p.m, p.path, pat(r), fx.RouteVer(r), tsr, pat(lr), fx.RouteVer(lr), ltsr, params)
	}
	sb.WriteString(obsIter(t.Iter()))
	return sb.String()
}

func pat(r *fox.Route) string {
	if r == nil {
		return "-"
	}
	return r.Pattern()
}

// obsRouter renders the router's current state (used for the differential "writes are unaffected
// by snapshots" check).
func obsRouter(f *fox.Router) string {
	return hist.Observe(f, pool) + obsIter(f.Iter()) + fox.VerifShape(f)
}

type snapshot struct {
	name string
	at   int
	read func() string
	was  string
}

var inHandler func(c fox.Context)

func hookHandler(v int) fox.HandlerFunc {
	s := strconv.Itoa(v)
	return func(c fox.Context) {
		c.Writer().Header().Set("V", s)
		if inHandler != nil {
			h := inHandler
			inHandler = nil
			h(c)
		}
		c.Writer().WriteHeader(200)
	}
}

func buildSeed(seed []hist.Key) *fox.Router {
	f, _ := fox.New()
	for _, k := range seed {
		if _, err := f.Handle(k.Method, k.Pattern, hookHandler(1), fx.WithVer(1)); err != nil {
			panic(err)
		}
	}
	return f
}

type writer interface {
	Handle(method, pattern string, h fox.HandlerFunc, opts ...fox.RouteOption) (*fox.Route, error)
	Update(method, pattern string, h fox.HandlerFunc, opts ...fox.RouteOption) (*fox.Route, error)
	Delete(method, pattern string) (*fox.Route, error)
}

func applyW(f *fox.Router, w writer, txn *fox.Txn, o wop, ver int) {
	switch o.Kind {
	case hist.Handle:
		w.Handle(o.Method, o.Pattern, hookHandler(ver), fx.WithVer(ver))
	case hist.Update:
		w.Update(o.Method, o.Pattern, hookHandler(ver), fx.WithVer(ver))
	case hist.Delete:
		w.Delete(o.Method, o.Pattern)
	case hist.Truncate:
		tr := func(t *fox.Txn) error {
			if o.Method == "" {
				return t.Truncate()
			}
			return t.Truncate(strings.Split(o.Method, ",")...)
		}
		if txn != nil {
			tr(txn)
		} else {
			f.Updates(tr)
		}
	}
}

// evalCase runs one case; twin (no snapshots at all) gives the reference final state.
func evalCase(cs Case) (class, msg string) {
	defer func() {
		if p := recover(); p != nil {
			class, msg = "panic", fmt.Sprintf("panic: %v\n%s\n    case: pool %s seed %v ops %v mode %d", p, mc.NormStack(string(debug.Stack()), 12), cs.Pool, cs.Seed, cs.Ops, cs.Mode)
		}
	}()
	return evalCase0(cs)
}

func evalCase0(cs Case) (class, msg string) {
	usePool(cs.Pool)
	desc := func() string {
		parts := make([]string, len(cs.Ops))
		for i, o := range cs.Ops {
			parts[i] = o.String()
		}
		return fmt.Sprintf("seed %v, operations [%s] (%s), in-transaction snapshot kind %d at position %d", cs.Seed, strings.Join(parts, "; "), modeNames[cs.Mode], cs.SnapKind, cs.SnapPos)
	}
	run := func(withSnaps bool) (final string, cls, m string) {
		f := buildSeed(cs.Seed)
		var snaps []*snapshot
		take := func(at int, name string, read func() string) {
			if !withSnaps {
				return
			}
			snaps = append(snaps, &snapshot{name: name, at: at, read: read, was: read()})
		}
		// takeLazy: a second value taken at the same moment as one that was just read, itself left unread until
		// later operations have happened: whenever it is first consumed, it shows the moment it was taken at
		takeLazy := func(at int, name string, read func() string) {
			if !withSnaps || len(snaps) == 0 {
				return
			}
			snaps = append(snaps, &snapshot{name: name + " (first read only after later operations)", at: at, read: read, was: snaps[len(snaps)-1].was})
		}
		recheck := func(after string) bool {
			for _, s := range snaps {
				if now := s.read(); now != s.was {
					cls, m = "snapshot-changed", fmt.Sprintf("%s taken at position %d reads differently after %s:\n%s    was\n%s", s.name, s.at, after, ind(now), ind(s.was))
					return false
				}
			}
			return true
		}
		takeRouterSnaps := func(at int) {
			it, it2 := f.Iter(), f.Iter()
			take(at, "Router.Iter()", func() string { return obsIter(it) })
			takeLazy(at, "Router.Iter()", func() string { return obsIter(it2) })
			ro := f.Txn(false)
			take(at, "Router.Txn(false)", func() string { return obsTxn(ro) })
		}
		switch cs.Mode {
		case modeDirect:
			for i, o := range cs.Ops {
				takeRouterSnaps(i)
				applyW(f, f, nil, o, 2+i)
				if !recheck(fmt.Sprintf("operation %d (%s)", i, o)) {
					return
				}
			}
			takeRouterSnaps(len(cs.Ops))
		case modeManagedEach:
			// consecutive committed managed transactions: what one leaves behind must not let the next one
			// touch the state published in between
			for i, o := range cs.Ops {
				takeRouterSnaps(i)
				f.Updates(func(txn *fox.Txn) error { applyW(f, txn, txn, o, 2+i); return nil })
				if !recheck(fmt.Sprintf("operation %d (%s) in a managed transaction", i, o)) {
					return
				}
			}
			takeRouterSnaps(len(cs.Ops))
			// later, independent writes: one that creates the root of a method the router never had (first, while the
			// published root slice is still the one the transaction started from), one under GET
			f.Handle("ZED", "/later", hookHandler(9), fx.WithVer(9))
			if !recheck("a later Handle(ZED /later)") {
				return
			}
			f.Handle("GET", "/later", hookHandler(9), fx.WithVer(9))
			if !recheck("a later Handle(GET /later)") {
				return
			}
		case modeTxnCommit, modeTxnAbort:
			takeRouterSnaps(0)
			txn := f.Txn(true)
			for i := 0; i <= len(cs.Ops); i++ {
				if withSnaps && i == cs.SnapPos {
					switch cs.SnapKind {
					case snapTxnSnapshot:
						s, s2 := txn.Snapshot(), txn.Snapshot()
						take(i, "Txn.Snapshot()", func() string { return obsTxn(s) })
						takeLazy(i, "Txn.Snapshot()", func() string { return obsTxn(s2) })
					case snapTxnIter:
						it, it2 := txn.Iter(), txn.Iter()
						take(i, "Txn.Iter() of the write transaction", func() string { return obsIter(it) })
						takeLazy(i, "Txn.Iter() of the write transaction", func() string { return obsIter(it2) })
					}
				}
				if i == len(cs.Ops) {
					break
				}
				applyW(f, txn, txn, cs.Ops[i], 2+i)
				if !recheck(fmt.Sprintf("uncommitted operation %d (%s)", i, cs.Ops[i])) {
					txn.Abort()
					return
				}
			}
			if cs.Mode == modeTxnCommit {
				txn.Commit()
			} else {
				txn.Abort()
			}
			if !recheck("the transaction ended (" + modeNames[cs.Mode] + ")") {
				return
			}
			// a later, independent write
			// later, independent writes: one that creates the root of a method the router never had (first, while the
			// published root slice is still the one the transaction started from), one under GET
			f.Handle("ZED", "/later", hookHandler(9), fx.WithVer(9))
			if !recheck("a later Handle(ZED /later)") {
				return
			}
			f.Handle("GET", "/later", hookHandler(9), fx.WithVer(9))
			if !recheck("a later Handle(GET /later)") {
				return
			}
		case modeInHandler:
			// the request being served is the snapshot: route, pattern and parameters seen by the
			// handler must not change while the handler itself rewrites the routing tree
			var before, after string
			rd := func(c fox.Context) string {
				ps := ""
				for p := range c.Params() {
					ps += p.Key + "=" + p.Value + ","
				}
				return fmt.Sprintf("route=%s#%d pattern=%s params=[%s] path=%s", pat(c.Route()), fx.RouteVer(c.Route()), c.Pattern(), ps, c.Path())
			}
			ran := false
			inHandler = func(c fox.Context) {
				ran = true
				before = rd(c)
				for i, o := range cs.Ops {
					applyW(f, f, nil, o, 2+i)
				}
				after = rd(c)
			}
			f.ServeHTTP(fx.NewRW(), fx.Req("GET", "", serveProbe))
			inHandler = nil
			if !ran {
				return "", "", "" // the seed has no route serving the request
			}
			if before != after {
				cls, m = "request-state-changed", fmt.Sprintf("inside the handler the context read %q before and %q after the writes", before, after)
				return
			}
		}
		return obsRouter(f), "", ""
	}
	final, cls, m := run(true)
	if cls != "" {
		return cls, m + "\n    " + desc()
	}
	twin, _, _ := run(false)
	if final != twin {
		return "snapshot-affects-writes", fmt.Sprintf("the final routing state differs from the same history without snapshots:\n%s    without snapshots\n%s    %s", ind(final), ind(twin), desc())
	}
	return "", ""
}

func ind(s string) string {
	return "        " + strings.ReplaceAll(strings.TrimRight(s, "\n"), "\n", "\n        ") + "\n"
}

func seeds() [][]hist.Key {
	var out [][]hist.Key
	if pool == poolMethods3 {
		return [][]hist.Key{{{Method: "GET", Pattern: "/a"}, {Method: "FOO", Pattern: "/a"}, {Method: "BAR", Pattern: "/a"}, {Method: "BAR", Pattern: "/a/b"}, {Method: "BAZ", Pattern: "/a"}, {Method: "BAZ", Pattern: "/a/b"}}}
	}
	if pool == poolMethods {
		all := []hist.Key{{Method: "GET", Pattern: "/a"}, {Method: "FOO", Pattern: "/a"}, {Method: "BAR", Pattern: "/a"}, {Method: "BAR", Pattern: "/a/b"}}
		for mask := 0; mask < 1<<len(all); mask++ {
			var sd []hist.Key
			for i := range all {
				if mask&(1<<i) != 0 {
					sd = append(sd, all[i])
				}
			}
			out = append(out, sd)
		}
		return out
	}
	gp := pool.Patterns
	for mask := 0; mask < 1<<len(gp); mask++ {
		var s []hist.Key
		for i := range gp {
			if mask&(1<<i) != 0 {
				s = append(s, hist.Key{Method: "GET", Pattern: gp[i]})
			}
		}
		if len(s) > 3 {
			continue
		}
		out = append(out, s)
		if len(s) <= 1 {
			out = append(out, append(append([]hist.Key{}, s...), hist.Key{Method: "FOO", Pattern: "/a"}))
		}
	}
	return out
}

func runSeq(c *mc.Ctx, r *mc.Result, poolName string) {
	usePool(poolName)
	alpha := alphabet()
	maxLen := 3
	if c.Quick() && poolName != "methods3" {
		maxLen = 2
	}
	sd := seeds()
	r.Bounds["sequential."+poolName] = fmt.Sprintf("patterns %v: %d seed states x all operation sequences of <=%d over %d operations x {direct (Router.Iter and read-only Txn snapshots at every position), one write transaction committed/aborted (Txn.Snapshot or Txn.Iter at each single position, router snapshots before), issued from inside a request handler, one committed managed transaction per operation}; every snapshot re-read after every later operation and ending; final state compared with the snapshot-free twin", pool.Patterns, len(sd), maxLen, len(alpha))
	idx := 0
	var ops []wop
	stopped := false
	var rec func(depth int)
	rec = func(depth int) {
		if stopped {
			return
		}
		if len(ops) > 0 {
			for si, seed := range sd {
				idx++
				if !c.Mine(idx) {
					continue
				}
				if c.ExpiredEvery(512) {
					stopped = true
					r.NotExhaustive = append(r.NotExhaustive, "sequential: time guard")
					return
				}
				var cases []Case
				cases = append(cases, Case{Pool: poolName, Seed: seed, Ops: ops, Mode: modeDirect}, Case{Pool: poolName, Seed: seed, Ops: ops, Mode: modeInHandler}, Case{Pool: poolName, Seed: seed, Ops: ops, Mode: modeManagedEach})
				for _, mode := range []int{modeTxnCommit, modeTxnAbort} {
					cases = append(cases, Case{Pool: poolName, Seed: seed, Ops: ops, Mode: mode, SnapKind: snapNone})
					for pos := 0; pos <= len(ops); pos++ {
						cases = append(cases, Case{Pool: poolName, Seed: seed, Ops: ops, Mode: mode, SnapKind: snapTxnSnapshot, SnapPos: pos}, Case{Pool: poolName, Seed: seed, Ops: ops, Mode: mode, SnapKind: snapTxnIter, SnapPos: pos})
					}
				}
				for _, cs := range cases {
					cs.Ops = append([]wop{}, ops...)
					class, msg := evalCase(cs)
					r.Evaluations++
					r.States += int64(len(ops) + 1)
					r.Transitions += int64(len(ops))
					r.TracesValidated++
					if len(ops) >= 2 {
						r.DistinctNontrivial++
					}
					if class != "" {
						r.Violate("sequential", class, msg, cs)
					}
					if si == 5 && len(ops) == maxLen && cs.Mode == modeTxnCommit && cs.SnapPos == 1 {
						r.Sample(cs)
					}
				}
			}
		}
		if depth == maxLen {
			return
		}
		for _, o := range alpha {
			ops = append(ops, o)
			rec(depth + 1)
			ops = ops[:len(ops)-1]
		}
	}
	rec(0)
}

// eviction: a write transaction touching more nodes than the copy cache (4096) holds.
func runEviction(c *mc.Ctx, r *mc.Result) {
	if c.Shard != 0 {
		return
	}
	const N = 5000
	r.Bounds["eviction"] = fmt.Sprintf("6 scenarios (3 kinds of write x snapshots during the first pass or only after it): one write transaction adding/updating/deleting under %d distinct pre-registered inner nodes (copy cache: 4096), then coming back to every 7th of them with a second write, snapshots every 512 (256) operations, re-read at the end and after commit/abort", N)
	for v6 := 0; v6 < 6; v6++ {
		// sparse: no snapshot during the first pass, so that the copy cache really overflows (taking a snapshot
		// empties it); one snapshot and one iterator are taken right after the first pass instead
		variant, sparse := v6%3, v6 >= 3
		f, _ := fox.New()
		for i := 0; i < N; i++ {
			f.Handle("GET", fmt.Sprintf("/n%d/a", i), fx.VerHandler(1), fx.WithVer(1))
			f.Handle("GET", fmt.Sprintf("/n%d/b", i), fx.VerHandler(1), fx.WithVer(1))
		}
		count := func(it fox.Iter) (n int, sum int) {
			for _, rt := range it.All() {
				n++
				sum += fx.RouteVer(rt)
			}
			return
		}
		type snap struct {
			at   int
			read func() string
			was  string
		}
		var snaps []snap
		take := func(at int, read func() string) { snaps = append(snaps, snap{at, read, read()}) }
		rit := f.Iter()
		take(-1, func() string {
			n, s := count(rit)
			return fmt.Sprintf("router-iter n=%d sum=%d has0=%v", n, s, f.Has("GET", "/n0/a"))
		})
		ro := f.Txn(false)
		take(-1, func() string {
			n, s := count(ro.Iter())
			return fmt.Sprintf("ro-txn n=%d sum=%d len=%d c=%v", n, s, ro.Len(), ro.Has("GET", "/n17/c"))
		})
		txn := f.Txn(true)
		for i := 0; i < N; i++ {
			switch variant {
			case 0:
				txn.Handle("GET", fmt.Sprintf("/n%d/c", i), fx.VerHandler(2), fx.WithVer(2))
			case 1:
				txn.Update("GET", fmt.Sprintf("/n%d/a", i), fx.VerHandler(2), fx.WithVer(2))
			case 2:
				txn.Delete("GET", fmt.Sprintf("/n%d/b", i))
			}
			if (!sparse && i%512 == 511) || (sparse && i == N-1) {
				i := i
				s := txn.Snapshot()
				take(i, func() string {
					n, sm := count(s.Iter())
					return fmt.Sprintf("txn-snapshot@%d n=%d sum=%d len=%d", i, n, sm, s.Len())
				})
				it := txn.Iter()
				take(i, func() string { n, sm := count(it); return fmt.Sprintf("txn-iter@%d n=%d sum=%d", i, n, sm) })
			}
			r.Transitions++
		}
		// second pass: the transaction comes back to nodes it copied long ago (their copies have left the copy
		// cache since) while snapshots taken in between still reference those copies
		back := 0
		for i := 0; i < N; i += 7 {
			switch variant {
			case 0:
				txn.Update("GET", fmt.Sprintf("/n%d/c", i), fx.VerHandler(3), fx.WithVer(3))
			case 1:
				txn.Update("GET", fmt.Sprintf("/n%d/a", i), fx.VerHandler(3), fx.WithVer(3))
			case 2:
				txn.Handle("GET", fmt.Sprintf("/n%d/b", i), fx.VerHandler(3), fx.WithVer(3))
			}
			back++
			if back%256 == 0 {
				at := N + back
				s := txn.Snapshot()
				take(at, func() string {
					n, sm := count(s.Iter())
					return fmt.Sprintf("txn-snapshot@%d n=%d sum=%d len=%d", at, n, sm, s.Len())
				})
			}
			r.Transitions++
		}
		check := func(when string) {
			for _, s := range snaps {
				if now := s.read(); now != s.was {
					r.Violate("eviction", "snapshot-changed", fmt.Sprintf("variant %d (sparse=%v): snapshot taken at op %d reads %q %s, was %q", variant, sparse, s.at, now, when, s.was), map[string]any{"variant": v6})
				}
			}
		}
		check("at the end of the transaction")
		if variant == 1 {
			txn.Abort()
		} else {
			txn.Commit()
		}
		check("after the transaction ended")
		n, _ := count(f.Iter())
		want := map[int]int{0: 3 * N, 1: 2 * N, 2: N + back}[variant]
		if n != want || f.Len() != want {
			r.Violate("eviction", "wrong-final-state", fmt.Sprintf("variant %d: %d routes (Len %d) after the large transaction, want %d", variant, n, f.Len(), want), map[string]any{"variant": variant})
		}
		r.Evaluations++
		r.States += int64(len(snaps))
		r.DistinctNontrivial += int64(len(snaps))
		r.TracesValidated++
	}
}

// concurrent: a reader keeps using snapshots while writers commit.
func concScenarios() []*mc.Scenario {
	usePool("prefixes")
	type rdr struct {
		name string
		mk   func(f *fox.Router) func() string
	}
	readers := []rdr{
		{"Router.Iter", func(f *fox.Router) func() string { it := f.Iter(); return func() string { return obsIter(it) } }},
		{"Router.Txn(false)", func(f *fox.Router) func() string { t := f.Txn(false); return func() string { return obsTxn(t) } }},
	}
	type wr struct {
		name string
		body func(f *fox.Router)
	}
	writers := []wr{
		{"handle+delete", func(f *fox.Router) {
			f.Handle("GET", "/a/b", fx.VerHandler(2), fx.WithVer(2))
			f.Delete("GET", "/a")
		}},
		{"update+txn", func(f *fox.Router) {
			f.Update("GET", "/a", fx.VerHandler(3), fx.WithVer(3))
			f.Updates(func(t *fox.Txn) error {
				t.Handle("GET", "/a/", fx.VerHandler(4), fx.WithVer(4))
				vs.Step("in-txn")
				t.Update("GET", "/a/c", fx.VerHandler(4), fx.WithVer(4))
				t.Delete("GET", "/a/{x}")
				return nil
			})
		}},
		{"truncate", func(f *fox.Router) {
			f.Updates(func(t *fox.Txn) error { t.Truncate("GET"); return nil })
			f.Handle("GET", "/a", fx.VerHandler(5), fx.WithVer(5))
		}},
	}
	var out []*mc.Scenario
	// the state a request is being served from is frozen: an answer assembled from several lookups
	// (405 / OPTIONS Allow list) must come from one committed state
	for _, p := range conc.AllowPrograms() {
		out = append(out, conc.LinScenario(p))
	}
	for _, rd := range readers {
		for _, w := range writers {
			rd, w := rd, w
			out = append(out, &mc.Scenario{
				Name:    rd.name + " vs " + w.name,
				Require: []vs.OpKind{vs.OpLoad, vs.OpLock, vs.OpStore},
				Build: func() *mc.Instance {
					f := buildSeed([]hist.Key{{Method: "GET", Pattern: "/a"}, {Method: "GET", Pattern: "/a/c"}, {Method: "GET", Pattern: "/a/{x}"}})
					var obs []string
					return &mc.Instance{
						Bodies: []func(){
							func() {
								read := rd.mk(f)
								for i := 0; i < 3; i++ {
									obs = append(obs, read())
									vs.Step("reader")
								}
							},
							func() { w.body(f) },
						},
						Check: func(x *mc.Exec) (string, string, string) {
							if x.S.Deadlock {
								return "deadlock", "deadlock", x.S.DeadInfo
							}
							for i := 0; i < 2; i++ {
								if pv, stk := x.S.PanicOf(i); pv != nil {
									return "panic", "panic", fmt.Sprintf("thread %d: %v\n%s", i, pv, mc.NormStack(stk, 10))
								}
							}
							for i := 1; i < len(obs); i++ {
								if obs[i] != obs[0] {
									return "changed", "snapshot-changed", fmt.Sprintf("%s read #%d differs from read #0 while %s runs concurrently:\n%s    first\n%s", rd.name, i, w.name, ind(obs[i]), ind(obs[0]))
								}
							}
							h := 0
							for _, ch := range obs[0] {
								h = h*31 + int(ch)
							}
							return "stable:" + strconv.Itoa(h&0xffff), "", ""
						},
					}
				},
			})
		}
	}
	return out
}

var _ = sort.Strings

func init() {
	mc.Register(&mc.Check{
		ID:    "C03",
		Level: "model_checking",
		Rule: "sequential: every operation sequence up to a length from every seed state, in four modes (direct, inside one committed/aborted write transaction, from inside a request handler); all four kinds of snapshot taken and re-read after every later operation and ending, final state compared with the snapshot-free twin; " +
			"eviction: transactions touching 5000 inner nodes (copy cache 4096); concurrent: all interleavings up to a preemption bound of a reader re-reading a snapshot against writers; distinct_nontrivial = sequences of >=2 operations x seeds x modes x snapshot positions + distinct concurrent outcomes",
		Assumptions: []string{
			"observation equality is byte equality of a rendering of every read API of the snapshot (iteration results, Has/Route, Reverse/Lookup and parameters)",
			"the in-transaction Snapshot/Iter is taken at one position per run, because taking it resets the transaction's writable-node cache (taking it everywhere would hide cache-related defects)",
		},
		Parts: []mc.Part{
			{Name: "sequential", Run: func(c *mc.Ctx, r *mc.Result) {
				un := mc.DeterministicPools()
				defer un()
				runSeq(c, r, "prefixes")
				runSeq(c, r, "siblings")
				runSeq(c, r, "infix2")
				runSeq(c, r, "methods")
				runSeq(c, r, "methods3")
			}, Replay: func(c *mc.Ctx, raw json.RawMessage) string {
				un := mc.DeterministicPools()
				defer un()
				var cs Case
				if err := json.Unmarshal(raw, &cs); err != nil {
					return "bad case"
				}
				_, msg := evalCase(cs)
				return msg
			}},
			{Name: "eviction", Run: runEviction, Replay: func(c *mc.Ctx, raw json.RawMessage) string {
				r := mc.NewResult()
				cc := *c
				cc.Shard = 0
				runEviction(&cc, r)
				if len(r.Violations) > 0 {
					return r.Violations[0].Msg
				}
				return ""
			}},
			{Name: "concurrent", Run: func(c *mc.Ctx, r *mc.Result) {
				bound := 3
				if c.Quick() {
					bound = 2
				}
				sub := mc.NewResult()
				for _, sc := range concScenarios() {
					mc.Explore(c, sub, "concurrent", sc, mc.ExploreOpts{Bound: bound})
				}
				mc.CountNontrivial(sub)
				r.Merge(sub)
			}, Replay: func(c *mc.Ctx, raw json.RawMessage) string { return mc.ReplaySched(concScenarios(), raw) }},
		},
	})
}
