// Package c19: a route carries exactly the options it was created with.
package c19

import (
	"encoding/json"
	"errors"
	"fmt"
	"net"
	"net/http"
	"strings"

	"github.com/tigerwill90/fox"

	"verifharness/fx"
	"verifharness/mc"
	"verifharness/ref"
)

type res struct{ id string }

func (r res) ClientIP(fox.Context) (*net.IPAddr, error) {
	return &net.IPAddr{IP: net.ParseIP(r.id)}, nil
}

// sliceRes is a resolver of a struct type that cannot be compared.
type sliceRes struct{ ids []string }

func (r sliceRes) ClientIP(fox.Context) (*net.IPAddr, error) {
	return &net.IPAddr{IP: net.ParseIP(r.ids[0])}, nil
}

// oddResolver: arguments 3 and 4 are functions, 5 and 6 structs holding a slice; each answers n.n.n.n.
func oddResolver(n int) fox.ClientIPResolver {
	id := fmt.Sprintf("%d.%d.%d.%d", n, n, n, n)
	if n <= 4 {
		return fox.ClientIPResolverFunc(func(fox.Context) (*net.IPAddr, error) { return &net.IPAddr{IP: net.ParseIP(id)}, nil })
	}
	return sliceRes{[]string{id}}
}

// trace records which middleware and handler ran for the request being served.
var trace []string

// (not inlined: every value it returns is a closure of the same function literal, as with any middleware or
// handler constructor used more than once; their code pointers are equal, only their captured values differ)
//
//go:noinline
func recMw(id string) fox.MiddlewareFunc {
	return func(n fox.HandlerFunc) fox.HandlerFunc {
		return func(c fox.Context) {
			trace = append(trace, id)
			n(c)
		}
	}
}

var mwforScopes = map[int]fox.HandlerScope{1: fox.NoRouteHandler, 2: fox.RouteHandler | fox.NoMethodHandler, 3: fox.OptionsHandler | fox.RedirectHandler}

type ifaceKey struct{ V any }
type plainKey struct{ A, B int }

// option kinds
type opt struct {
	Kind string `json:"k"`
	Arg  int    `json:"arg,omitempty"`
}

func (o opt) String() string { return fmt.Sprintf("%s(%d)", o.Kind, o.Arg) }

var annotKeys = []struct {
	name  string
	key   func() any
	valid bool
}{
	{"string k1", func() any { return "k1" }, true},
	{"string k2", func() any { return "k2" }, true},
	{"int 7", func() any { return 7 }, true},
	{"struct", func() any { return plainKey{1, 2} }, true},
	{"pointer", func() any { return ptrKey }, true},
	{"nil", func() any { return nil }, false},
	{"[]int", func() any { return []int{1} }, false},
	{"map", func() any { return map[string]int{} }, false},
	{"func", func() any { return func() {} }, false},
	{"struct with interface field holding a slice", func() any { return ifaceKey{V: []int{1}} }, false},
	{"struct with interface field holding an int", func() any { return ifaceKey{V: 3} }, true},
	{"array of interfaces holding a map", func() any { return [1]any{map[int]int{}} }, false},
	{"array of structs with an interface field holding a slice", func() any { return [1]ifaceKey{{V: []int{1}}} }, false},
	{"array of structs with an interface field holding an int", func() any { return [1]ifaceKey{{V: 3}} }, true},
	{"array of arrays of interfaces holding a map", func() any { return [2][1]any{{1}, {map[string]int{}}} }, false},
	{"struct containing an array of structs with an interface field holding a func", func() any { return struct{ A [1]ifaceKey }{A: [1]ifaceKey{{V: func() {}}}} }, false},
}

var ptrKey = new(int)

func globalOpts() []opt {
	return []opt{{"redirect", 1}, {"redirect", 0}, {"ignore", 1}, {"ignore", 0}, {"resolver", 1}, {"resolver", 0}, {"middleware", 1}, {"middleware", 0}, {"mwfor", 1}, {"mwfor", 2}, {"mwfor", 3},
		// resolvers whose types cannot be compared (a function, a struct holding a slice)
		{"resolver", 3}, {"resolver", 5}}
}

func routeOpts() []opt {
	out := []opt{{"redirect", 1}, {"redirect", 0}, {"ignore", 1}, {"ignore", 0}, {"resolver", 2}, {"resolver", 0}, {"middleware", 1}, {"middleware", 0}, {"resolver", 4}, {"resolver", 6}}
	for i := range annotKeys {
		out = append(out, opt{"annot", i})
	}
	// a nil VALUE under a valid key: it replaces an earlier value like any other
	out = append(out, opt{"annotnil", 0}, opt{"annotnil", 2})
	return out
}

// nilValue marks a key whose last value is nil in the model
const nilValue = -1

func annotOK(got any, want int, has bool) bool {
	if !has || want == nilValue {
		return got == nil
	}
	return got == want
}

func toGlobal(o opt, seq int) fox.GlobalOption {
	switch o.Kind {
	case "mwfor":
		return fox.WithMiddlewareFor(mwforScopes[o.Arg], recMw(fmt.Sprintf("g%d", seq)))
	case "redirect":
		return fox.WithRedirectTrailingSlash(o.Arg == 1)
	case "ignore":
		return fox.WithIgnoreTrailingSlash(o.Arg == 1)
	case "resolver":
		if o.Arg == 0 {
			return fox.WithClientIPResolver(nil)
		}
		if o.Arg >= 3 {
			return fox.WithClientIPResolver(oddResolver(o.Arg))
		}
		return fox.WithClientIPResolver(res{"1.1.1.1"})
	case "middleware":
		if o.Arg == 0 {
			return fox.WithMiddleware(nil)
		}
		return fox.WithMiddleware(recMw(fmt.Sprintf("g%d", seq)))
	}
	panic("bad global option")
}

func toRoute(o opt, seq int) fox.RouteOption {
	switch o.Kind {
	case "redirect":
		return fox.WithRedirectTrailingSlash(o.Arg == 1)
	case "ignore":
		return fox.WithIgnoreTrailingSlash(o.Arg == 1)
	case "resolver":
		if o.Arg == 0 {
			return fox.WithClientIPResolver(nil)
		}
		if o.Arg >= 3 {
			return fox.WithClientIPResolver(oddResolver(o.Arg))
		}
		return fox.WithClientIPResolver(res{"2.2.2.2"})
	case "middleware":
		if o.Arg == 0 {
			return fox.WithMiddleware(nil)
		}
		return fox.WithMiddleware(recMw(fmt.Sprintf("r%d", seq)))
	case "annot":
		return fox.WithAnnotation(annotKeys[o.Arg].key(), seq)
	case "annotnil":
		return fox.WithAnnotation(annotKeys[o.Arg].key(), nil)
	}
	panic("bad route option")
}

// model is the left fold of an option list.
type model struct {
	redirect, ignore bool
	resolver         string // "", "1.1.1.1", "2.2.2.2"
	invalid          bool
	annots           map[int]int // key index -> last value
	gmw, rmw         []string    // global middleware whose scope includes route handlers; route middleware
}

func (m *model) apply(o opt, seq int, global bool) {
	switch o.Kind {
	case "redirect":
		m.redirect = o.Arg == 1
		if m.redirect {
			m.ignore = false
		}
	case "ignore":
		m.ignore = o.Arg == 1
		if m.ignore {
			m.redirect = false
		}
	case "resolver":
		switch {
		case o.Arg == 1:
			m.resolver = "1.1.1.1"
		case o.Arg == 2:
			m.resolver = "2.2.2.2"
		case o.Arg >= 3:
			m.resolver = fmt.Sprintf("%d.%d.%d.%d", o.Arg, o.Arg, o.Arg, o.Arg)
		case !global:
			m.resolver = "" // a nil per-route resolver means none
		}
	case "middleware":
		if o.Arg == 0 {
			m.invalid = true
		} else if global {
			m.gmw = append(m.gmw, fmt.Sprintf("g%d", seq))
		} else {
			m.rmw = append(m.rmw, fmt.Sprintf("r%d", seq))
		}
	case "mwfor":
		if mwforScopes[o.Arg]&fox.RouteHandler != 0 {
			m.gmw = append(m.gmw, fmt.Sprintf("g%d", seq))
		}
	case "annot":
		if !annotKeys[o.Arg].valid {
			m.invalid = true
			return
		}
		if m.annots == nil {
			m.annots = map[int]int{}
		}
		m.annots[o.Arg] = seq
	case "annotnil":
		if m.annots == nil {
			m.annots = map[int]int{}
		}
		m.annots[o.Arg] = nilValue
	}
}

// Case is replayable.
type Case struct {
	Global  []opt  `json:"global"`
	Route   []opt  `json:"route"`
	Pattern string `json:"pattern"`
	Via     string `json:"via"` // NewRoute | Handle | Update
	NilH    bool   `json:"nil_handler"`
}

var patterns = []string{"/a", "/a/{x}", "/a/*{w}/b/{y}", "a.b/c", "{h}.b/{x}/*{w}", "a.{h}.c/"}

func evalCase(cs Case) (class, msg string) {
	desc := fmt.Sprintf("global options %v, route options %v, pattern %q via %s (nil handler: %v)", cs.Global, cs.Route, cs.Pattern, cs.Via, cs.NilH)
	gm := &model{}
	var gopts []fox.GlobalOption
	for i, o := range cs.Global {
		gm.apply(o, i, true)
		gopts = append(gopts, toGlobal(o, i))
	}
	var f *fox.Router
	var err error
	var pv any
	func() {
		defer func() { pv = recover() }()
		f, err = fox.New(gopts...)
	}()
	if pv != nil {
		return "panic", fmt.Sprintf("fox.New panicked (%v): %s", pv, desc)
	}
	if gm.invalid {
		if !errors.Is(err, fox.ErrInvalidConfig) {
			return "invalid-accepted", fmt.Sprintf("fox.New returned %v, want ErrInvalidConfig: %s", err, desc)
		}
		return "", ""
	}
	if err != nil {
		return "valid-rejected", fmt.Sprintf("fox.New returned %v: %s", err, desc)
	}
	rm := &model{redirect: gm.redirect, ignore: gm.ignore, resolver: gm.resolver, gmw: gm.gmw}
	var ropts []fox.RouteOption
	for i, o := range cs.Route {
		rm.apply(o, i+1, false)
		ropts = append(ropts, toRoute(o, i+1))
	}
	var h fox.HandlerFunc = func(c fox.Context) { trace = append(trace, "h") }
	if cs.NilH {
		h = nil
	}
	var rt *fox.Route
	func() {
		defer func() { pv = recover() }()
		switch cs.Via {
		case "NewRoute":
			rt, err = f.NewRoute(cs.Pattern, h, ropts...)
		case "Handle":
			rt, err = f.Handle("GET", cs.Pattern, h, ropts...)
		case "Update":
			if _, e := f.Handle("GET", cs.Pattern, func(fox.Context) {}, fox.WithAnnotation("old", 1), fox.WithIgnoreTrailingSlash(true)); e != nil {
				err = e
				return
			}
			rt, err = f.Update("GET", cs.Pattern, h, ropts...)
		}
	}()
	if pv != nil {
		return "panic", fmt.Sprintf("%s panicked (%v): %s", cs.Via, pv, desc)
	}
	if rm.invalid || cs.NilH {
		if err == nil {
			return "invalid-accepted", fmt.Sprintf("%s accepted an invalid option / nil handler: %s", cs.Via, desc)
		}
		if !errors.Is(err, fox.ErrInvalidConfig) && !errors.Is(err, fox.ErrInvalidRoute) {
			return "invalid-accepted", fmt.Sprintf("%s returned %v, want ErrInvalidConfig or ErrInvalidRoute: %s", cs.Via, err, desc)
		}
		if cs.Via != "NewRoute" && f.Len() != map[string]int{"Handle": 0, "Update": 1}[cs.Via] {
			return "invalid-accepted", fmt.Sprintf("a rejected %s changed the router: %s", cs.Via, desc)
		}
		return "", ""
	}
	if err != nil {
		return "valid-rejected", fmt.Sprintf("%s returned %v: %s", cs.Via, err, desc)
	}
	if cs.Via != "NewRoute" {
		if got := f.Route("GET", cs.Pattern); got != rt {
			return "wrong-route-stored", fmt.Sprintf("Route() does not return the route %s returned: %s", cs.Via, desc)
		}
	}
	// accessors
	if rt.RedirectTrailingSlashEnabled() != rm.redirect || rt.IgnoreTrailingSlashEnabled() != rm.ignore {
		return "wrong-slash-mode", fmt.Sprintf("route has redirect=%v ignore=%v, want redirect=%v ignore=%v: %s", rt.RedirectTrailingSlashEnabled(), rt.IgnoreTrailingSlashEnabled(), rm.redirect, rm.ignore, desc)
	}
	gotRes := ""
	if r := rt.ClientIPResolver(); r != nil {
		ip, _ := r.ClientIP(nil)
		gotRes = ip.String()
	}
	if gotRes != rm.resolver {
		return "wrong-resolver", fmt.Sprintf("route resolver %q, want %q: %s", gotRes, rm.resolver, desc)
	}
	for i, k := range annotKeys {
		if !k.valid {
			continue
		}
		var got any
		func() {
			defer func() { pv = recover() }()
			got = rt.Annotation(k.key())
		}()
		want, ok := rm.annots[i]
		if !annotOK(got, want, ok) {
			return "wrong-annotation", fmt.Sprintf("Annotation(%s) = %v, want %v (present=%v): %s", k.name, got, want, ok, desc)
		}
	}
	if cs.Via == "Update" && rt.Annotation("old") != nil {
		return "wrong-annotation", "Update kept an annotation of the replaced route: " + desc
	}
	p := ref.MustParse(cs.Pattern)
	if rt.Hostname()+rt.Path() != rt.Pattern() || rt.Pattern() != cs.Pattern || rt.Hostname() != cs.Pattern[:p.HostLen] {
		return "wrong-accessors", fmt.Sprintf("Hostname()=%q Path()=%q Pattern()=%q: %s", rt.Hostname(), rt.Path(), rt.Pattern(), desc)
	}
	if rt.ParamsLen() != p.NParams {
		return "wrong-accessors", fmt.Sprintf("ParamsLen()=%d, the pattern has %d wildcards: %s", rt.ParamsLen(), p.NParams, desc)
	}
	// the middleware the route carries: router-wide ones scoped to route handlers, in registration
	// order, outside the route's own; observed by serving a request that matches the pattern
	if cs.Via == "NewRoute" {
		if err := f.HandleRoute("GET", rt); err != nil {
			return "valid-rejected", fmt.Sprintf("HandleRoute of the new route returned %v: %s", err, desc)
		}
	}
	vals := make([]string, p.NParams)
	for i := range vals {
		vals[i] = "v"
	}
	host, path := p.Substitute(vals)
	want := strings.Join(append(append(append([]string{}, rm.gmw...), rm.rmw...), "h"), ",")
	trace = nil
	f.ServeHTTP(fx.NewRW(), fx.Req("GET", host, path))
	if got := strings.Join(trace, ","); got != want {
		return "wrong-middleware", fmt.Sprintf("serving %s%s ran [%s], want [%s]: %s", host, path, got, want, desc)
	}
	trace = nil
	rt.HandleMiddleware(fox.NewTestContextOnly(fx.NewRW(), fx.Req("GET", host, path)))
	if got, w := strings.Join(trace, ","), strings.Join(append(append([]string{}, rm.rmw...), "h"), ","); got != w {
		return "wrong-middleware", fmt.Sprintf("Route.HandleMiddleware ran [%s], want [%s]: %s", got, w, desc)
	}
	return "", ""
}

// runTestContexts: the test-context constructors build a router from the global options they are given; that
// router's configuration is in force for the context (Context.ClientIP outside a route) and for the routes created
// on it afterwards, exactly as with New.
func runTestContexts(c *mc.Ctx, r *mc.Result) {
	if c.Shard != 0 {
		return
	}
	gos := globalOpts()
	var lists [][]opt
	lists = append(lists, nil)
	for _, a := range gos {
		lists = append(lists, []opt{a})
		for _, b := range gos {
			lists = append(lists, []opt{a, b})
		}
	}
	r.Bounds["test-contexts"] = fmt.Sprintf("%d lists of <=2 router-wide options through NewTestContext and NewTestContextOnly: Context.ClientIP of the context and the configuration inherited by a route created on its router", len(lists))
	for li, l := range lists {
		m := &model{}
		var gopts []fox.GlobalOption
		for i, o := range l {
			m.apply(o, i+1, true)
			gopts = append(gopts, toGlobal(o, i+1))
		}
		if m.invalid {
			continue
		}
		for _, ctor := range []string{"NewTestContext", "NewTestContextOnly"} {
			r.Evaluations++
			r.DistinctNontrivial++
			var tc fox.Context
			var f *fox.Router
			var pv any
			func() {
				defer func() { pv = recover() }()
				if ctor == "NewTestContext" {
					var t *fox.TestContext
					f, t = fox.NewTestContext(fx.NewRW(), fx.Req("GET", "", "/"), gopts...)
					tc = t
				} else {
					t := fox.NewTestContextOnly(fx.NewRW(), fx.Req("GET", "", "/"), gopts...)
					tc, f = t, t.Fox()
				}
			}()
			desc := fmt.Sprintf("%s with router-wide options %v", ctor, l)
			if pv != nil {
				r.Violate("test-contexts", "panic", fmt.Sprintf("%s panicked: %v", desc, pv), li)
				continue
			}
			got := "none"
			if ip, err := tc.ClientIP(); err == nil {
				got = ip.String()
			} else if !errors.Is(err, fox.ErrNoClientIPResolver) {
				got = "err:" + err.Error()
			}
			want := m.resolver
			if want == "" {
				want = "none"
			}
			if got != want {
				r.Violate("test-contexts", "wrong-resolver-in-handler", fmt.Sprintf("Context.ClientIP of the context answers %s, want %s: %s", got, want, desc), li)
				continue
			}
			rt, err := f.NewRoute("/t", func(fox.Context) {})
			if err != nil {
				r.Violate("test-contexts", "valid-rejected", err.Error()+": "+desc, li)
				continue
			}
			gotRes := ""
			if rs := rt.ClientIPResolver(); rs != nil {
				ip, _ := rs.ClientIP(nil)
				gotRes = ip.String()
			}
			if rt.RedirectTrailingSlashEnabled() != m.redirect || rt.IgnoreTrailingSlashEnabled() != m.ignore || gotRes != m.resolver {
				r.Violate("test-contexts", "wrong-slash-mode", fmt.Sprintf("a route created on the context's router has redirect=%v ignore=%v resolver=%q, want %v %v %q: %s", rt.RedirectTrailingSlashEnabled(), rt.IgnoreTrailingSlashEnabled(), gotRes, m.redirect, m.ignore, m.resolver, desc), li)
			}
		}
	}
}

// runAccessors: accessor consistency on patterns with many wildcards (counter widths): ParamsLen()
// equals the number of wildcards, Hostname()+Path() equals Pattern(); a pattern beyond the parameter
// limit is rejected, never accepted with a wrapped count.
func runAccessors(c *mc.Ctx, r *mc.Result) {
	if c.Shard != 0 {
		return
	}
	ns := []int{1, 2, 255, 256, 257, 65534, 65535, 65536, 65537}
	r.Bounds["accessors"] = fmt.Sprintf("patterns with %v wildcards, path-only and with a hostname, through NewRoute and Handle", ns)
	for _, n := range ns {
		for _, host := range []bool{false, true} {
			pat := strings.Repeat("/{p}", n)
			if host {
				pat = "{h}.x" + strings.Repeat("/{p}", n-1) + "/"
			}
			f, _ := fox.New()
			for _, via := range []string{"NewRoute", "Handle"} {
				var rt *fox.Route
				var err error
				if via == "NewRoute" {
					rt, err = f.NewRoute(pat, func(fox.Context) {})
				} else {
					rt, err = f.Handle("GET", pat, func(fox.Context) {})
				}
				r.Evaluations++
				r.DistinctNontrivial++
				desc := fmt.Sprintf("%s of a pattern with %d wildcards (hostname: %v)", via, n, host)
				switch {
				case n > 65535:
					if err == nil {
						r.Violate("accessors", "wrong-accessors", fmt.Sprintf("%s is accepted and reports ParamsLen()=%d", desc, rt.ParamsLen()), n)
					} else if !errors.Is(err, fox.ErrInvalidRoute) {
						r.Violate("accessors", "invalid-accepted", fmt.Sprintf("%s returned %v, want an error matching ErrInvalidRoute", desc, err), n)
					}
				case err != nil:
					r.Violate("accessors", "valid-rejected", fmt.Sprintf("%s returned %v", desc, err), n)
				case rt.ParamsLen() != n || rt.Hostname()+rt.Path() != rt.Pattern() || rt.Pattern() != pat:
					r.Violate("accessors", "wrong-accessors", fmt.Sprintf("%s: ParamsLen()=%d, len(Hostname()+Path())=%d, len(Pattern())=%d, pattern length %d", desc, rt.ParamsLen(), len(rt.Hostname()+rt.Path()), len(rt.Pattern()), len(pat)), n)
				}
			}
		}
	}
}

// clientIP in every handler kind, in sequences on one router.
func runHandlers(c *mc.Ctx, r *mc.Result) {
	if c.Shard != 0 {
		return
	}
	kinds := []string{"route(inherits)", "route(own)", "route(nil)", "404", "405", "options", "redirect"}
	// the three route kinds again, dispatched by hand: a manual Lookup (on the router, on a read-only and on a
	// write transaction) followed by Route.Handle on the returned context
	vias := []string{"Router.Lookup", "Txn(ro).Lookup", "Txn(rw).Lookup"}
	for _, k := range kinds[:3] {
		for _, v := range vias {
			kinds = append(kinds, k+" via "+v)
		}
	}
	r.Bounds["handlers"] = fmt.Sprintf("router-wide resolver {none, set} x all ordered pairs and triples of %d request kinds on one router (deterministic context pool); Context.ClientIP read in every handler", len(kinds))
	for _, global := range []bool{false, true} {
		var seen string
		readOne := func(c fox.Context) (out string) {
			defer func() {
				if p := recover(); p != nil {
					out = fmt.Sprintf("panic:%v", p)
				}
			}()
			ip, err := c.ClientIP()
			switch {
			case errors.Is(err, fox.ErrNoClientIPResolver):
				return "none"
			case err != nil:
				return "err:" + err.Error()
			}
			return ip.String()
		}
		read := func(c fox.Context) {
			seen = readOne(c)
			// a Clone and a CloneWith of the context answer the same (and still know their router)
			cl := c.Clone()
			if got := readOne(cl); got != seen {
				seen = fmt.Sprintf("%s but its Clone() answers %s", seen, got)
			} else if cl.Fox() != c.Fox() {
				seen += " (Clone().Fox() differs)"
			}
			cw := c.CloneWith(c.Writer(), c.Request())
			if got := readOne(cw); !strings.HasPrefix(seen, got) {
				seen = fmt.Sprintf("%s but its CloneWith() answers %s", seen, got)
			}
			cw.Close()
		}
		opts := []fox.GlobalOption{fox.WithNoRouteHandler(read), fox.WithNoMethodHandler(read), fox.WithOptionsHandler(read),
			fox.WithMiddlewareFor(fox.RedirectHandler, func(next fox.HandlerFunc) fox.HandlerFunc {
				return func(c fox.Context) { read(c); next(c) }
			})}
		if global {
			opts = append(opts, fox.WithClientIPResolver(res{"1.1.1.1"}))
		}
		build := func() *fox.Router {
			f, err := fox.New(opts...)
			if err != nil {
				panic(err)
			}
			f.Handle("GET", "/inh", read)
			f.Handle("GET", "/own", read, fox.WithClientIPResolver(res{"2.2.2.2"}))
			f.Handle("GET", "/nil", read, fox.WithClientIPResolver(nil))
			f.Handle("GET", "/red/", read, fox.WithRedirectTrailingSlash(true))
			return f
		}
		g := "none"
		if global {
			g = "1.1.1.1"
		}
		reqs := map[string][2]string{"route(inherits)": {"GET", "/inh"}, "route(own)": {"GET", "/own"}, "route(nil)": {"GET", "/nil"}, "404": {"GET", "/zzz"}, "405": {"POST", "/inh"}, "options": {"OPTIONS", "/inh"}, "redirect": {"GET", "/red"}}
		want := map[string]string{"route(inherits)": g, "route(own)": "2.2.2.2", "route(nil)": "none", "404": g, "405": g, "options": g, "redirect": g}
		var seqs [][]string
		for _, a := range kinds {
			for _, b := range kinds {
				seqs = append(seqs, []string{a, b})
				for _, d := range kinds {
					seqs = append(seqs, []string{a, b, d})
				}
			}
		}
		for _, k := range kinds[:3] {
			for _, v := range vias {
				reqs[k+" via "+v] = reqs[k]
				want[k+" via "+v] = want[k]
			}
		}
		type lookuper interface {
			Lookup(w fox.ResponseWriter, r *http.Request) (*fox.Route, fox.ContextCloser, bool)
		}
		dispatch := func(l lookuper, rq *http.Request) {
			if rt, cc, _ := l.Lookup(fx.WrapRW(fx.NewRW()), rq); rt != nil {
				rt.Handle(cc)
				cc.Close()
			}
		}
		for _, s := range seqs {
			f := build()
			for _, k := range s {
				seen = "handler did not run"
				rq := fx.Req(reqs[k][0], "", reqs[k][1])
				switch {
				case strings.HasSuffix(k, "via Router.Lookup"):
					dispatch(f, rq)
				case strings.HasSuffix(k, "via Txn(ro).Lookup"):
					txn := f.Txn(false)
					dispatch(txn, rq)
					txn.Abort()
				case strings.HasSuffix(k, "via Txn(rw).Lookup"):
					txn := f.Txn(true)
					dispatch(txn, rq)
					txn.Abort()
				default:
					f.ServeHTTP(fx.NewRW(), rq)
				}
				r.Evaluations++
				r.DistinctNontrivial++
				if seen != want[k] {
					r.Violate("handlers", "wrong-resolver-in-handler", fmt.Sprintf("router-wide resolver %s, request sequence %v: Context.ClientIP in the %s handler used %q, want %q", g, s, k, seen, want[k]), map[string]any{"global": global, "seq": s})
					break
				}
			}
		}
	}
}

// runShared: the same option VALUES reused for several routes must not couple the routes.
func runShared(c *mc.Ctx, r *mc.Result) {
	if c.Shard != 0 {
		return
	}
	ros := routeOpts()
	r.Bounds["shared"] = fmt.Sprintf("every route option (%d) as a value shared by three routes, followed on routes 1 and 3 by every other option (%d): each route is compared with its own fold model after all three exist", len(ros), len(ros))
	for si, shared := range ros {
		for ei, extra := range ros {
			for ej := 0; ej < len(ros); ej += 5 {
				extra2 := ros[ej]
				f, err := fox.New()
				if err != nil {
					r.Errors = append(r.Errors, err.Error())
					return
				}
				sm := &model{}
				sm.apply(shared, 1, false)
				if sm.invalid {
					continue
				}
				inst := toRoute(shared, 1)
				type rdef struct {
					pat   string
					extra *opt
				}
				defs := []rdef{{"/one", &extra}, {"/two", nil}, {"/three", &extra2}}
				var routes []*fox.Route
				var models []*model
				ok := true
				for _, d := range defs {
					m := &model{}
					m.apply(shared, 1, false)
					opts := []fox.RouteOption{inst}
					if d.extra != nil {
						m.apply(*d.extra, 2, false)
						opts = append(opts, toRoute(*d.extra, 2))
					}
					var rt *fox.Route
					var pv any
					func() {
						defer func() { pv = recover() }()
						rt, err = f.NewRoute(d.pat, func(fox.Context) {}, opts...)
					}()
					if pv != nil {
						r.Violate("shared", "panic", fmt.Sprintf("NewRoute panicked: %v (shared %v, extra %v)", pv, shared, d.extra), map[string]any{"shared": si, "extra": ei})
						ok = false
						break
					}
					if m.invalid {
						continue
					}
					if err != nil {
						ok = false
						break
					}
					routes = append(routes, rt)
					models = append(models, m)
				}
				if !ok {
					continue
				}
				r.Evaluations++
				r.DistinctNontrivial++
				for i, rt := range routes {
					m := models[i]
					msg := ""
					if rt.RedirectTrailingSlashEnabled() != m.redirect || rt.IgnoreTrailingSlashEnabled() != m.ignore {
						msg = "trailing-slash mode"
					}
					for ki, k := range annotKeys {
						if !k.valid {
							continue
						}
						got := rt.Annotation(k.key())
						want, has := m.annots[ki]
						if !annotOK(got, want, has) {
							msg = fmt.Sprintf("Annotation(%s) = %v, want %v (present=%v)", k.name, got, want, has)
						}
					}
					if msg != "" {
						r.Violate("shared", "routes-coupled", fmt.Sprintf("route %s created with the shared option value %v (and %v for the other routes) has wrong %s: a route's options must not be affected by other routes built from the same option values", rt.Pattern(), shared, []opt{extra, extra2}, msg), map[string]any{"shared": si, "extra": ei, "extra2": ej})
						break
					}
				}
			}
		}
	}
}

// toDual builds one option VALUE usable both router-wide and per route.
func toDual(o opt, seq int) fox.Option {
	switch o.Kind {
	case "redirect":
		return fox.WithRedirectTrailingSlash(o.Arg == 1)
	case "ignore":
		return fox.WithIgnoreTrailingSlash(o.Arg == 1)
	case "resolver":
		if o.Arg == 0 {
			return fox.WithClientIPResolver(nil)
		}
		return fox.WithClientIPResolver(res{"1.1.1.1"})
	case "middleware":
		return fox.WithMiddleware(recMw(fmt.Sprintf("d%d", seq)))
	}
	panic("bad dual option")
}

// runDual: one option value applied to a route first and to a new router afterwards (and the other way
// round) behaves each time like a fresh value.
func runDual(c *mc.Ctx, r *mc.Result) {
	if c.Shard != 0 {
		return
	}
	duals := []opt{{"redirect", 1}, {"redirect", 0}, {"ignore", 1}, {"ignore", 0}, {"resolver", 1}, {"resolver", 0}, {"middleware", 1}}
	pres := append([]opt{{Kind: ""}}, globalOpts()...)
	r.Bounds["dual"] = fmt.Sprintf("%d option values usable router-wide and per route x %d router-wide options placed before them x {route use then router use, router use then route use}: the second use is compared with the fold model of a fresh value", len(duals), len(pres))
	slashRes := func(rt *fox.Route) string {
		gotRes := ""
		if rs := rt.ClientIPResolver(); rs != nil {
			ip, _ := rs.ClientIP(nil)
			gotRes = ip.String()
		}
		return fmt.Sprintf("redirect=%v ignore=%v resolver=%q", rt.RedirectTrailingSlashEnabled(), rt.IgnoreTrailingSlashEnabled(), gotRes)
	}
	wantOf := func(m *model) string {
		return fmt.Sprintf("redirect=%v ignore=%v resolver=%q", m.redirect, m.ignore, m.resolver)
	}
	h := func(fox.Context) {}
	for di, d := range duals {
		for pi, pre := range pres {
			for _, routeFirst := range []bool{true, false} {
				v := toDual(d, 2)
				gm := &model{}
				var gopts []fox.GlobalOption
				if pre.Kind != "" {
					gm.apply(pre, 1, true)
					gopts = append(gopts, toGlobal(pre, 1))
				}
				if gm.invalid {
					continue
				}
				r.Evaluations++
				r.DistinctNontrivial++
				cs := map[string]any{"dual": di, "pre": pi, "route_first": routeFirst}
				desc := fmt.Sprintf("option value %v, router-wide option before it %v, route use first: %v", d, pre, routeFirst)
				if routeFirst {
					f1, _ := fox.New()
					if _, err := f1.NewRoute("/x", h, v); err != nil {
						continue
					}
					f2, err := fox.New(append(gopts, v)...)
					if err != nil {
						continue
					}
					gm.apply(d, 2, true)
					rt, err := f2.NewRoute("/y", h)
					if err != nil {
						r.Violate("dual", "valid-rejected", err.Error()+": "+desc, cs)
						continue
					}
					if got, want := slashRes(rt), wantOf(gm); got != want {
						r.Violate("dual", "option-value-stateful", fmt.Sprintf("a router built with an option value that was applied to a route before gives its routes %s, a fresh value gives %s: %s", got, want, desc), cs)
					}
				} else {
					if _, err := fox.New(v); err != nil {
						continue
					}
					f2, err := fox.New(gopts...)
					if err != nil {
						continue
					}
					rm := &model{redirect: gm.redirect, ignore: gm.ignore, resolver: gm.resolver}
					rm.apply(d, 2, false)
					rt, err := f2.NewRoute("/y", h, v)
					if err != nil {
						r.Violate("dual", "valid-rejected", err.Error()+": "+desc, cs)
						continue
					}
					if got, want := slashRes(rt), wantOf(rm); got != want {
						r.Violate("dual", "option-value-stateful", fmt.Sprintf("a route built with an option value that was applied to a router before has %s, a fresh value gives %s: %s", got, want, desc), cs)
					}
				}
			}
		}
	}
}

func runOptions(c *mc.Ctx, r *mc.Result) {
	maxRoute := 3
	if c.Quick() {
		maxRoute = 2
	}
	gos, ros := globalOpts(), routeOpts()
	var gl [][]opt
	gl = append(gl, nil)
	for _, a := range gos {
		gl = append(gl, []opt{a})
		for _, b := range gos {
			gl = append(gl, []opt{a, b})
		}
	}
	var rl [][]opt
	var rec func(cur []opt)
	rec = func(cur []opt) {
		rl = append(rl, append([]opt{}, cur...))
		if len(cur) == maxRoute {
			return
		}
		for _, o := range ros {
			rec(append(cur, o))
		}
	}
	rec(nil)
	r.Bounds["options"] = fmt.Sprintf("%d global option sequences (<=2 of %d) x %d route option sequences (<=%d of %d, incl. %d annotation key kinds) x {NewRoute, Handle, Update} x %d patterns (rotated) x nil handler", len(gl), len(gos), len(rl), maxRoute, len(ros), len(annotKeys), len(patterns))
	idx := 0
	for gi, g := range gl {
		for ri, ro := range rl {
			idx++
			if !c.Mine(idx) {
				continue
			}
			for vi, via := range []string{"NewRoute", "Handle", "Update"} {
				cs := Case{Global: g, Route: ro, Pattern: patterns[(gi+ri+vi)%len(patterns)], Via: via}
				class, msg := evalCase(cs)
				r.Evaluations++
				if len(g)+len(ro) >= 2 {
					r.DistinctNontrivial++
				}
				if class != "" {
					r.Violate("options", class, msg, cs)
				}
				{
					// the same case with a nil handler: rejected whatever the options are
					cs.NilH = true
					class, msg = evalCase(cs)
					r.Evaluations++
					if class != "" {
						r.Violate("options", class, msg, cs)
					}
				}
			}
		}
	}
	if c.Shard == 0 {
		r.Sample(Case{Global: []opt{{"ignore", 1}}, Route: []opt{{"redirect", 1}, {"annot", 0}, {"annot", 0}}, Pattern: "/a/{x}", Via: "Update"})
	}
}

var _ = strings.Join

func init() {
	mc.Register(&mc.Check{
		ID:    "C19",
		Level: "exploration",
		Rule: "every sequence of <=2 global options x every sequence of route options up to a length (repeated, contradictory, nil and ill-typed values included) x {NewRoute, Handle, Update}, patterns rotated over 6 shapes, compared with a left-fold model of the options; Context.ClientIP read in all handler kinds over all request pairs and triples on one router; " +
			"non-trivial = at least two options in play; every handler-sequence case",
		Assumptions: []string{
			"model: last value wins; enabling one trailing-slash mode clears the other; a nil per-route resolver means none, a nil router-wide resolver is ignored; an annotation key is valid iff it can serve as a map key (dynamic comparability)",
		},
		WorkerInit: func() { mc.DeterministicPools() },
		Parts: []mc.Part{
			{Name: "options", Run: runOptions, Replay: func(c *mc.Ctx, raw json.RawMessage) string {
				var cs Case
				if err := json.Unmarshal(raw, &cs); err != nil {
					return "bad case"
				}
				_, msg := evalCase(cs)
				return msg
			}},
			{Name: "accessors", Run: runAccessors, Replay: func(c *mc.Ctx, raw json.RawMessage) string {
				r := mc.NewResult()
				cc := *c
				cc.Shard = 0
				runAccessors(&cc, r)
				if len(r.Violations) > 0 {
					return r.Violations[0].Msg
				}
				return ""
			}},
			{Name: "shared", Run: runShared, Replay: func(c *mc.Ctx, raw json.RawMessage) string {
				r := mc.NewResult()
				cc := *c
				cc.Shard = 0
				runShared(&cc, r)
				if len(r.Violations) > 0 {
					return r.Violations[0].Msg
				}
				return ""
			}},
			{Name: "test-contexts", Run: runTestContexts, Replay: func(c *mc.Ctx, raw json.RawMessage) string {
				r := mc.NewResult()
				cc := *c
				cc.Shard = 0
				runTestContexts(&cc, r)
				if len(r.Violations) > 0 {
					return r.Violations[0].Msg
				}
				return ""
			}},
			{Name: "dual", Run: runDual, Replay: func(c *mc.Ctx, raw json.RawMessage) string {
				r := mc.NewResult()
				cc := *c
				cc.Shard = 0
				runDual(&cc, r)
				if len(r.Violations) > 0 {
					return r.Violations[0].Msg
				}
				return ""
			}},
			{Name: "handlers", Run: runHandlers, Replay: func(c *mc.Ctx, raw json.RawMessage) string {
				r := mc.NewResult()
				cc := *c
				cc.Shard = 0
				runHandlers(&cc, r)
				if len(r.Violations) > 0 {
					return r.Violations[0].Msg
				}
				return ""
			}},
		},
	})
}
