// Package c04: transactions are atomic and isolated.
package c04

import (
	"encoding/json"
	"errors"
	"fmt"
	"runtime"
	"sort"
	"strings"

	"github.com/tigerwill90/fox"

	. "verifharness/conc"
	"verifharness/fx"
	"verifharness/hist"
	"verifharness/mc"
)

// ---------------------------------------------------------------------------------------------
// sequential part: transaction bodies x endings x seeds, observed between every two steps
// ---------------------------------------------------------------------------------------------

var poolPrefix = &hist.Pool{
	Methods:  []string{"GET", "FOO"},
	Patterns: []string{"/a", "/a/", "/a/b", "/a/c", "/a/{x}"},
}

// poolSiblings: many siblings under one node (children slices with spare capacity, re-sorting).
var poolSiblings = &hist.Pool{
	Methods:  []string{"GET", "FOO"},
	Patterns: []string{"/b", "/c", "/d", "/a", "/*{w}"},
}

// poolMethods: several custom methods (the method-root slice grows, shrinks and shifts; Truncate of
// one custom method next to another).
var poolMethods = &hist.Pool{
	Methods:  []string{"GET", "FOO", "BAR"},
	Patterns: []string{"/a", "/a/b"},
}

// poolInfix: a route whose key holds an infix catch-all followed by a suffix (resolved through a
// precomputed sub-node), with routes below it.
var poolInfix = &hist.Pool{
	Methods:  []string{"GET", "FOO"},
	Patterns: []string{"/*{x}/r", "/*{x}/r/m", "/*{x}/r/b", "/*{x}/rb", "/*{x}/r/*{y}/e"},
}

var pool = poolPrefix

func usePool(name string) {
	if name == "infix" {
		pool = poolInfix
		probes = []probe{{"GET", "/1/r"}, {"GET", "/1/r/m"}, {"GET", "/1/r/b"}, {"GET", "/1/rb"}, {"GET", "/1/2/r"}, {"GET", "/1/r/2/e"}, {"FOO", "/a"}}
		return
	}
	if name == "methods" {
		pool = poolMethods
		probes = []probe{{"GET", "/a"}, {"GET", "/a/b"}, {"FOO", "/a"}, {"BAR", "/a"}, {"BAR", "/a/b"}, {"PUT", "/a"}}
		return
	}
	if name == "siblings" {
		pool = poolSiblings
		probes = []probe{{"GET", "/a"}, {"GET", "/b"}, {"GET", "/c"}, {"GET", "/d"}, {"GET", "/z/y"}, {"FOO", "/a"}}
		return
	}
	pool = poolPrefix
	probes = []probe{{"GET", "/a"}, {"GET", "/a/"}, {"GET", "/a/b"}, {"GET", "/a/c"}, {"GET", "/a/z"}, {"FOO", "/a"}}
}

// body operation kinds beyond hist's: take a Snapshot / an Iter of the transaction
const (
	opSnap = 100 + iota
	opIter
)

type bop struct {
	Kind    int    `json:"kind"`
	Method  string `json:"m,omitempty"`
	Pattern string `json:"p,omitempty"`
}

func (b bop) String() string {
	switch b.Kind {
	case opSnap:
		return "Snapshot()"
	case opIter:
		return "Iter()"
	}
	return hist.Op{Kind: b.Kind, Method: b.Method, Pattern: b.Pattern}.String()
}

func bodyAlphabet() []bop {
	var out []bop
	if pool == poolMethods {
		for _, m := range pool.Methods {
			for _, k := range []int{hist.Handle, hist.Update, hist.Delete} {
				out = append(out, bop{Kind: k, Method: m, Pattern: "/a"})
			}
			out = append(out, bop{Kind: hist.Truncate, Method: m})
		}
		out = append(out, bop{Kind: hist.Handle, Method: "BAR", Pattern: "/a/b"}, bop{Kind: hist.Truncate, Method: "FOO,BAR"}, bop{Kind: hist.Truncate}, bop{Kind: opSnap}, bop{Kind: opIter})
		return out
	}
	for _, p := range pool.Patterns {
		for _, k := range []int{hist.Handle, hist.Update, hist.Delete} {
			out = append(out, bop{Kind: k, Method: "GET", Pattern: p})
		}
	}
	out = append(out, bop{Kind: hist.Handle, Method: "FOO", Pattern: "/a"}, bop{Kind: hist.Delete, Method: "FOO", Pattern: "/a"})
	out = append(out, bop{Kind: hist.Truncate, Method: "GET"}, bop{Kind: hist.Truncate}, bop{Kind: opSnap}, bop{Kind: opIter})
	return out
}

// endings
const (
	endCommit = iota
	endAbort
	endCommitAbort
	endAbortCommit
	endUpdatesNil
	endUpdatesErr
	endUpdatesPanic
	nEnds
)

var endNames = [...]string{"Commit", "Abort", "Commit;Abort", "Abort;Commit", "Updates->nil", "Updates->error", "Updates->panic"}

// Case is a replayable sequential case.
type Case struct {
	Pool string     `json:"pool,omitempty"`
	Seed []hist.Key `json:"seed"`
	Body []bop      `json:"body"`
	End  int        `json:"end"`
}

func seedModel(seed []hist.Key) hist.Model {
	m := hist.Model{}
	for _, k := range seed {
		m[k] = 1
	}
	return m
}

func buildSeed(seed []hist.Key) *fox.Router {
	f, _ := fox.New()
	for _, k := range seed {
		if _, err := f.Handle(k.Method, k.Pattern, fx.VerHandler(1), fx.WithVer(1)); err != nil {
			panic(err)
		}
	}
	return f
}

type probe struct{ m, path string }

var probes = []probe{{"GET", "/a"}, {"GET", "/a/"}, {"GET", "/a/b"}, {"GET", "/a/c"}, {"GET", "/a/z"}, {"FOO", "/a"}}

// observe renders everything readable through rd (plus request serving when rd is the router).
func observe(rd hist.ReadAPI, f *fox.Router) string { return observeWith(rd, f, true) }

// observeNoIter is observe without Txn.Iter: on a write transaction Iter (like Snapshot) resets
// the transaction's writable-node cache, so calling it from the observer would perturb the
// transaction under test. Iter and Snapshot are part of the body alphabet instead.
func observeNoIter(rd hist.ReadAPI) string { return observeWith(rd, nil, false) }

func observeWith(rd hist.ReadAPI, f *fox.Router, iter bool) string {
	var sb strings.Builder
	if iter {
		sb.WriteString(hist.Observe(rd, pool))
	} else {
		fmt.Fprintf(&sb, "len=%d\n", rd.Len())
		for _, m := range pool.Methods {
			for _, pt := range pool.Patterns {
				if has, v := rd.Has(m, pt), fx.RouteVer(rd.Route(m, pt)); has || v != 0 {
					fmt.Fprintf(&sb, "%s %s: has=%v route#%d\n", m, pt, has, v)
				}
			}
		}
	}
	for _, p := range probes {
		r, tsr := rd.Reverse(p.m, "", p.path)
		pat := "-"
		if r != nil {
			pat = r.Pattern()
		}
		fmt.Fprintf(&sb, "reverse %s %s = %s#%d tsr=%v\n", p.m, p.path, pat, fx.RouteVer(r), tsr)
	}
	if f != nil {
		for _, p := range probes {
			w := fx.NewRW()
			f.ServeHTTP(w, fx.Req(p.m, "", p.path))
			fmt.Fprintf(&sb, "serve %s %s = %d v=%s\n", p.m, p.path, w.Code, w.H.Get("V"))
		}
	}
	return sb.String()
}

// expect renders the same for a model state by building a fresh router holding exactly the model
// (the read APIs on a plain router are validated against the map model by C02).
func expect(m hist.Model, mode int) string {
	f, _ := fox.New()
	for _, k := range sortKeys(m) {
		v := m[k]
		if _, err := f.Handle(k.Method, k.Pattern, fx.VerHandler(v), fx.WithVer(v)); err != nil {
			panic(err)
		}
	}
	switch mode {
	case 1:
		return observe(f, f)
	case 2:
		return observeNoIter(f)
	}
	return observe(f, nil)
}

func sortKeys(m hist.Model) []hist.Key {
	ks := make([]hist.Key, 0, len(m))
	for k := range m {
		ks = append(ks, k)
	}
	for i := range ks {
		for j := i + 1; j < len(ks); j++ {
			if ks[j].Method+" "+ks[j].Pattern < ks[i].Method+" "+ks[i].Pattern {
				ks[i], ks[j] = ks[j], ks[i]
			}
		}
	}
	return ks
}

type injected struct{}

// evalCase runs one (seed, body, ending) and returns (class, msg).
func evalCase(cs Case, expCache map[string]string) (class, msg string) {
	usePool(cs.Pool)
	pre := seedModel(cs.Seed)
	f := buildSeed(cs.Seed)
	exp := func(m hist.Model, mode int) string {
		k := m.String() + fmt.Sprint(mode)
		if v, ok := expCache[k]; ok {
			return v
		}
		v := expect(m, mode)
		expCache[k] = v
		return v
	}
	desc := func() string {
		parts := make([]string, len(cs.Body))
		for i, b := range cs.Body {
			parts[i] = b.String()
		}
		return fmt.Sprintf("seed %s, transaction body [%s], ending %s", pre, strings.Join(parts, "; "), endNames[cs.End])
	}
	fail := func(c, format string, a ...any) (string, string) {
		return c, fmt.Sprintf(format, a...) + "\n    " + desc()
	}
	cur := pre.Clone()
	type snap struct {
		rd   hist.ReadAPI
		it   *fox.Iter
		want string
		at   int
	}
	var snaps []snap
	iterObs := func(it fox.Iter) string {
		var all []string
		for m, r := range it.All() {
			all = append(all, fmt.Sprintf("%s %s#%d", m, r.Pattern(), fx.RouteVer(r)))
		}
		sort.Strings(all)
		out := strings.Join(all, ";")
		for _, p := range probes {
			for _, r := range it.Reverse(func(y func(string) bool) { y(p.m) }, "", p.path) {
				out += fmt.Sprintf("|reverse %s %s=%s#%d", p.m, p.path, r.Pattern(), fx.RouteVer(r))
			}
		}
		return out
	}
	// what a reader taken inside the transaction at this point must show: the model state so far
	expIter := func(m hist.Model) string {
		k := m.String() + "iter"
		if v, ok := expCache[k]; ok {
			return v
		}
		g, _ := fox.New()
		for _, key := range sortKeys(m) {
			v := m[key]
			if _, err := g.Handle(key.Method, key.Pattern, fx.VerHandler(v), fx.WithVer(v)); err != nil {
				panic(err)
			}
		}
		v := iterObs(g.Iter())
		expCache[k] = v
		return v
	}
	var bodyErr string
	runBody := func(txn *fox.Txn) {
		for i, b := range cs.Body {
			switch b.Kind {
			case opSnap:
				s := txn.Snapshot()
				snaps = append(snaps, snap{rd: s, want: observe(s, nil), at: i})
				if g, w := snaps[len(snaps)-1].want, exp(cur, 0); g != w && bodyErr == "" {
					bodyErr = fmt.Sprintf("the Snapshot taken at step %d does not show the transaction's writes so far:\n%s    want\n%s", i, ind(g), ind(w))
				}
				// a snapshot is a read-only transaction: writes through it are refused, Commit and Abort on it are
				// no-ops (the checks after this step see the router, the transaction and the writer lock unchanged)
				refused := func(what string, err error) {
					if !errors.Is(err, fox.ErrReadOnlyTxn) && bodyErr == "" {
						bodyErr = fmt.Sprintf("%s through the Snapshot taken at step %d returned %v, want ErrReadOnlyTxn", what, i, err)
					}
				}
				_, err := s.Handle("GET", "/via/snapshot", fx.VerHandler(7), fx.WithVer(7))
				refused("Handle", err)
				_, err = s.Update(probes[0].m, pool.Patterns[0], fx.VerHandler(7), fx.WithVer(7))
				refused("Update", err)
				_, err = s.Delete(probes[0].m, pool.Patterns[0])
				refused("Delete", err)
				refused("Truncate", s.Truncate())
				if i%2 == 0 {
					s.Commit()
				} else {
					s.Abort()
				}
				if g := observe(s, nil); g != snaps[len(snaps)-1].want && bodyErr == "" {
					bodyErr = fmt.Sprintf("the Snapshot taken at step %d reads differently after refused writes and Commit/Abort on it:\n%s    was\n%s", i, ind(g), ind(snaps[len(snaps)-1].want))
				}
			case opIter:
				it := txn.Iter()
				snaps = append(snaps, snap{it: &it, want: iterObs(it), at: i})
				if g, w := snaps[len(snaps)-1].want, expIter(cur); g != w && bodyErr == "" {
					bodyErr = fmt.Sprintf("the Iter taken at step %d does not show the transaction's writes so far:\n      %s\n    want\n      %s", i, g, w)
				}
			case hist.Truncate:
				var err error
				if b.Method == "" {
					err = txn.Truncate()
				} else {
					err = txn.Truncate(strings.Split(b.Method, ",")...)
				}
				if err != nil {
					bodyErr = fmt.Sprintf("Truncate returned %v", err)
				}
				_, cur = hist.ModelApply(cur, hist.Op{Kind: hist.Truncate, Method: b.Method})
			default:
				op := hist.Op{Kind: b.Kind, Method: b.Method, Pattern: b.Pattern}
				wantOut, next := hist.ModelApply(cur, op)
				v := 1
				if b.Kind == hist.Update {
					if c := cur[hist.Key{Method: b.Method, Pattern: b.Pattern}]; c != 0 {
						v = 3 - c
					}
				}
				var err error
				switch b.Kind {
				case hist.Handle:
					_, err = txn.Handle(b.Method, b.Pattern, fx.VerHandler(v), fx.WithVer(v))
				case hist.Update:
					_, err = txn.Update(b.Method, b.Pattern, fx.VerHandler(v), fx.WithVer(v))
				case hist.Delete:
					_, err = txn.Delete(b.Method, b.Pattern)
				}
				got := ""
				switch {
				case err == nil:
				case errors.Is(err, fox.ErrRouteExist):
					got = "exist"
				case errors.Is(err, fox.ErrRouteNotFound):
					got = "notfound"
				case errors.Is(err, fox.ErrRouteConflict):
					got = "conflict"
				default:
					got = "other:" + err.Error()
				}
				if got != wantOut.Err && bodyErr == "" {
					bodyErr = fmt.Sprintf("step %d %s returned %q, model says %q", i, b, got, wantOut.Err)
				}
				cur = next
			}
			// isolation: the router still shows the pre-state, the transaction its own writes
			if g, w := observe(f, f), exp(pre, 1); g != w && bodyErr == "" {
				bodyErr = fmt.Sprintf("after step %d (%s) of the open transaction the router shows\n%s    want (state before the transaction)\n%s", i, b, ind(g), ind(w))
			}
			if g, w := observeNoIter(txn), exp(cur, 2); g != w && bodyErr == "" {
				bodyErr = fmt.Sprintf("after step %d (%s) the transaction does not read its own writes:\n%s    want\n%s", i, b, ind(g), ind(w))
			}
			for _, s := range snaps {
				var g string
				if s.it != nil {
					g = iterObs(*s.it)
				} else {
					g = observe(s.rd, nil)
				}
				if g != s.want && bodyErr == "" {
					bodyErr = fmt.Sprintf("a snapshot/iterator taken at step %d changed after step %d (%s):\n%s    was\n%s", s.at, i, b, ind(g), ind(s.want))
				}
			}
		}
	}
	committed := false
	var escaped any
	var txn *fox.Txn
	func() {
		defer func() {
			if p := recover(); p != nil {
				escaped = p
			}
		}()
		switch cs.End {
		case endCommit, endAbort, endCommitAbort, endAbortCommit:
			txn = f.Txn(true)
			runBody(txn)
			switch cs.End {
			case endCommit:
				txn.Commit()
				committed = true
			case endAbort:
				txn.Abort()
			case endCommitAbort:
				txn.Commit()
				txn.Abort()
				committed = true
			case endAbortCommit:
				txn.Abort()
				txn.Commit()
			}
		case endUpdatesNil, endUpdatesErr, endUpdatesPanic:
			err := f.Updates(func(t *fox.Txn) error {
				txn = t
				runBody(t)
				switch cs.End {
				case endUpdatesErr:
					return errors.New("injected")
				case endUpdatesPanic:
					panic(injected{})
				}
				return nil
			})
			if cs.End == endUpdatesNil {
				committed = true
				if err != nil {
					bodyErr = "Updates returned " + err.Error()
				}
			} else if err == nil || err.Error() != "injected" {
				bodyErr = fmt.Sprintf("Updates must return the function's error, got %v", err)
			}
		}
	}()
	if escaped != nil {
		if _, ok := escaped.(injected); !ok || cs.End != endUpdatesPanic {
			return fail("panic", "unexpected panic: %v", escaped)
		}
	} else if cs.End == endUpdatesPanic {
		return fail("panic-swallowed", "a panic inside Updates did not propagate")
	}
	if bodyErr != "" {
		cls := "isolation"
		if strings.Contains(bodyErr, "snapshot/iterator") {
			cls = "snapshot-changed"
		} else if strings.Contains(bodyErr, "returned") {
			cls = "txn-result"
		} else if strings.Contains(bodyErr, "own writes") || strings.Contains(bodyErr, "writes so far") {
			cls = "txn-read-own-writes"
		}
		return fail(cls, "%s", bodyErr)
	}
	// atomicity: all or nothing
	want := pre
	if committed {
		want = cur
	}
	if g, w := observe(f, f), exp(want, 1); g != w {
		cls := "not-atomic"
		if !committed {
			cls = "aborted-writes-visible"
		}
		return fail(cls, "after the transaction ended the router shows\n%s    want\n%s", ind(g), ind(w))
	}
	// snapshots survive the ending
	for _, s := range snaps {
		var g string
		if s.it != nil {
			g = iterObs(*s.it)
		} else {
			g = observe(s.rd, nil)
		}
		if g != s.want {
			return fail("snapshot-changed", "a snapshot/iterator taken at step %d changed after the transaction ended:\n%s    was\n%s", s.at, ind(g), ind(s.want))
		}
	}
	// the settled transaction refuses further use
	if msg := settledBehaviour(txn); msg != "" {
		return fail("settled-txn", "%s", msg)
	}
	// the writer lock is released: a new write transaction can be opened (with the deterministic
	// scheduler installed, locking a held mutex panics instead of hanging)
	var lockErr any
	func() {
		defer func() { lockErr = recover() }()
		t2 := f.Txn(true)
		if _, err := t2.Handle("GET", "/after", fx.VerHandler(1)); err != nil {
			lockErr = err
		}
		t2.Commit()
	}()
	if lockErr != nil {
		return fail("lock-not-released", "a new write transaction cannot be used after the ending: %v", lockErr)
	}
	if !f.Has("GET", "/after") {
		return fail("not-atomic", "a write committed after the ending is not visible")
	}
	return "", ""
}

func ind(s string) string {
	return "        " + strings.ReplaceAll(strings.TrimRight(s, "\n"), "\n", "\n        ") + "\n"
}

func settledBehaviour(txn *fox.Txn) string {
	if txn == nil {
		return ""
	}
	mustPanic := func(name string, fn func()) string {
		var p any
		func() {
			defer func() { p = recover() }()
			fn()
		}()
		if p == nil {
			return name + " on a settled transaction did not panic"
		}
		if err, ok := p.(error); !ok || !errors.Is(err, fox.ErrSettledTxn) {
			return fmt.Sprintf("%s on a settled transaction panicked with %v, want ErrSettledTxn", name, p)
		}
		return ""
	}
	h := fx.VerHandler(1)
	calls := []struct {
		n string
		f func()
	}{
		{"Handle", func() { txn.Handle("GET", "/s", h) }},
		{"Update", func() { txn.Update("GET", "/s", h) }},
		{"Delete", func() { txn.Delete("GET", "/s") }},
		{"HandleRoute", func() { txn.HandleRoute("GET", nil) }},
		{"UpdateRoute", func() { txn.UpdateRoute("GET", nil) }},
		{"Truncate", func() { txn.Truncate() }},
		{"Has", func() { txn.Has("GET", "/s") }},
		{"Route", func() { txn.Route("GET", "/s") }},
		{"Reverse", func() { txn.Reverse("GET", "", "/s") }},
		{"Lookup", func() { txn.Lookup(fx.WrapRW(fx.NewRW()), fx.Req("GET", "", "/s")) }},
		{"Iter", func() { txn.Iter() }},
		{"Len", func() { txn.Len() }},
	}
	for _, c := range calls {
		if m := mustPanic(c.n, c.f); m != "" {
			return m
		}
	}
	var p any
	func() {
		defer func() { p = recover() }()
		txn.Commit()
		txn.Abort()
		if txn.Snapshot() != nil {
			p = "Snapshot of a settled transaction is not nil"
		}
	}()
	if p != nil {
		return fmt.Sprint("Commit/Abort/Snapshot on a settled transaction: ", p)
	}
	return ""
}

func seeds() [][]hist.Key {
	var out [][]hist.Key
	if pool == poolMethods {
		all := []hist.Key{{Method: "GET", Pattern: "/a"}, {Method: "FOO", Pattern: "/a"}, {Method: "BAR", Pattern: "/a"}, {Method: "BAR", Pattern: "/a/b"}}
		for mask := 0; mask < 1<<len(all); mask++ {
			var sd []hist.Key
			for i := range all {
				if mask&(1<<i) != 0 {
					sd = append(sd, all[i])
				}
			}
			out = append(out, sd)
		}
		return out
	}
	gp := pool.Patterns
	n := len(gp)
	for mask := 0; mask < 1<<n; mask++ {
		var s []hist.Key
		for i := 0; i < n; i++ {
			if mask&(1<<i) != 0 {
				s = append(s, hist.Key{Method: "GET", Pattern: gp[i]})
			}
		}
		if len(s) > 3 {
			continue
		}
		out = append(out, s)
		if len(s) <= 1 {
			out = append(out, append(append([]hist.Key{}, s...), hist.Key{Method: "FOO", Pattern: "/a"}))
		}
	}
	return out
}

func runSeq(c *mc.Ctx, r *mc.Result, poolName string) {
	usePool(poolName)
	alpha := bodyAlphabet()
	maxLen := 3
	if c.Quick() {
		maxLen = 2
	}
	sd := seeds()
	r.Bounds["sequential."+poolName] = fmt.Sprintf("%d seed states (subsets <=3 of %v on GET, +FOO /a) x all transaction bodies of <=%d operations over %d operations (Handle/Update/Delete on 5 patterns, custom method, Truncate(GET), Truncate(), Snapshot, Iter) x %d endings", len(sd), pool.Patterns, maxLen, len(alpha), nEnds)
	cache := map[string]string{}
	idx := 0
	var body []bop
	var rec func(depth int)
	stopped := false
	rec = func(depth int) {
		if stopped {
			return
		}
		if len(body) > 0 {
			for si, seed := range sd {
				idx++
				if !c.Mine(idx) {
					continue
				}
				if c.ExpiredEvery(1024) {
					stopped = true
					r.NotExhaustive = append(r.NotExhaustive, "sequential: time guard")
					return
				}
				for end := 0; end < nEnds; end++ {
					cs := Case{Pool: poolName, Seed: seed, Body: append([]bop{}, body...), End: end}
					class, msg := evalCase(cs, cache)
					r.Evaluations++
					r.Transitions += int64(len(body))
					r.States++
					r.TracesValidated++
					if len(body) >= 2 {
						r.DistinctNontrivial++
					}
					if class != "" {
						r.Violate("sequential", class, msg, cs)
					}
					if si == 3 && end == 0 && len(body) == maxLen {
						r.Sample(cs)
					}
				}
			}
		}
		if depth == maxLen {
			return
		}
		for _, b := range alpha {
			body = append(body, b)
			rec(depth + 1)
			body = body[:len(body)-1]
		}
	}
	rec(0)
	// read-only transactions: every write returns ErrReadOnlyTxn and changes nothing
	for _, seed := range sd {
		f := buildSeed(seed)
		before := observe(f, f)
		ro := f.Txn(false)
		h := fx.VerHandler(1)
		rt, _ := f.NewRoute("/ro", h)
		errs := []error{}
		_, e1 := ro.Handle("GET", "/ro", h)
		_, e2 := ro.Update("GET", "/a", h)
		_, e3 := ro.Delete("GET", "/a")
		errs = append(errs, e1, e2, e3, ro.HandleRoute("GET", rt), ro.UpdateRoute("GET", rt), ro.Truncate(), ro.Truncate("GET"))
		for i, e := range errs {
			if !errors.Is(e, fox.ErrReadOnlyTxn) {
				r.Violate("sequential", "readonly-write", fmt.Sprintf("write #%d through a read-only transaction returned %v, want ErrReadOnlyTxn (seed %v)", i, e, seed), Case{Seed: seed})
			}
		}
		ro.Commit()
		ro.Abort()
		if after := observe(f, f); after != before {
			r.Violate("sequential", "readonly-write", fmt.Sprintf("writes through a read-only transaction changed the router (seed %v)", seed), Case{Seed: seed})
		}
		r.Evaluations++
	}
}

// ---------------------------------------------------------------------------------------------
// concurrent part: a multi-operation transaction against concurrent readers
// ---------------------------------------------------------------------------------------------

func concPrograms(quick bool) []*Program {
	h := func(k, v int) Op { return Op{Kind: Handle, Key: k, Ver: v} }
	u := func(k, v int) Op { return Op{Kind: Update, Key: k, Ver: v} }
	d := func(k int) Op { return Op{Kind: Delete, Key: k} }
	rd := func(kind string, k int) Op { return Op{Kind: kind, Key: k} }
	body := []Op{h(1, 5), h(2, 5), d(0)}
	body2 := []Op{u(0, 6), u(1, 6), h(2, 6)}
	var out []*Program
	for ei, end := range []int{EndCommit, EndAbort, EndUpdatesNil, EndUpdatesErr, EndUpdatesPanic} {
		for bi, b := range [][]Op{body, body2} {
			init := State{1, 0, 0, 0, 0, 0}
			if bi == 1 {
				init = State{1, 1, 0, 0, 0, 0}
			}
			readers := [][]Op{
				{rd(Has, 0), rd(Has, 1), rd(Has, 2)},
				{rd(Serve, 1), rd(Serve, 0), {Kind: IterAll}},
			}
			if quick && (end == EndUpdatesNil) {
				continue
			}
			out = append(out, &Program{Name: fmt.Sprintf("txn3-%d-%d", ei, bi), Init: init, Threads: [][]Op{
				{{Kind: Txn, End: end, StepIn: true, Sub: b}}, readers[0], readers[1]}})
		}
	}
	return out
}

func concScenarios(quick bool) []*mc.Scenario {
	var scs []*mc.Scenario
	for _, p := range concPrograms(quick) {
		scs = append(scs, LinScenario(p))
	}
	for _, p := range AllowPrograms() {
		scs = append(scs, LinScenario(p))
	}
	return scs
}

// ---------------------------------------------------------------------------------------------
// panics in user code run while a write is in progress (middleware constructors)
// ---------------------------------------------------------------------------------------------

type boomVal struct{}

// evalPanicCall: seed {GET /a, GET /a/b}; one write entry point is called with a route option whose
// middleware constructor panics; afterwards nothing of the write is visible and a new write
// transaction is accepted and commits.
func evalPanicCall(entry string) (string, string) {
	f, _ := fox.New()
	h := fx.VerHandler(1)
	f.MustHandle("GET", "/a", h, fx.WithVer(1))
	f.MustHandle("GET", "/a/b", h, fx.WithVer(1))
	bad := fox.WithMiddleware(func(next fox.HandlerFunc) fox.HandlerFunc { panic(boomVal{}) })
	before := hist.Observe(f, poolPrefix)
	var pv any
	goexit := false
	func() {
		defer func() { pv = recover() }()
		switch entry {
		case "Router.Handle":
			f.Handle("GET", "/a/c", h, bad)
		case "Router.Update":
			f.Update("GET", "/a", h, bad)
		case "Router.NewRoute+HandleRoute":
			rt, _ := f.NewRoute("/a/c", h, bad)
			f.HandleRoute("GET", rt)
		case "Updates{Handle ok; Handle panicking}":
			f.Updates(func(txn *fox.Txn) error {
				txn.Handle("GET", "/a/c", h)
				txn.Handle("GET", "/a/{x}", h, bad)
				return nil
			})
		case "Updates{Delete; Update panicking}":
			f.Updates(func(txn *fox.Txn) error {
				txn.Delete("GET", "/a/b")
				txn.Update("GET", "/a", h, bad)
				return nil
			})
		case "Txn(true){Handle panicking} with deferred Abort":
			func() {
				txn := f.Txn(true)
				defer txn.Abort()
				txn.Handle("GET", "/a/c", h)
				txn.Handle("GET", "/a/{x}", h, bad)
				txn.Commit()
			}()
		case "Updates{Handle; Commit; panic}":
			// the function settles the transaction itself (allowed) and then panics: the recovery of Updates must not
			// touch the writer lock a second time
			f.Updates(func(txn *fox.Txn) error {
				txn.Handle("GET", "/a/c", h, fx.WithVer(1))
				txn.Commit()
				panic(boomVal{})
			})
		case "Updates{Handle; Abort; panic}":
			f.Updates(func(txn *fox.Txn) error {
				txn.Handle("GET", "/a/c", h, fx.WithVer(1))
				txn.Abort()
				panic(boomVal{})
			})
		case "Updates{Handle; Delete; runtime.Goexit}", "Txn(true){Handle; runtime.Goexit} with deferred Abort":
			// the function never returns and does not panic either: its goroutine is ended (runtime.Goexit, what
			// t.FailNow does); deferred calls run, nothing was committed, so nothing of the writes may show
			done := make(chan struct{})
			go func() {
				defer close(done)
				if strings.HasPrefix(entry, "Updates") {
					f.Updates(func(txn *fox.Txn) error {
						txn.Handle("GET", "/a/c", h, fx.WithVer(1))
						txn.Delete("GET", "/a")
						runtime.Goexit()
						return nil
					})
					return
				}
				txn := f.Txn(true)
				defer txn.Abort()
				txn.Handle("GET", "/a/c", h, fx.WithVer(1))
				runtime.Goexit()
				txn.Commit()
			}()
			<-done
			goexit = true // no panic to propagate in this ending
		}
	}()
	if entry == "Updates{Handle; Commit; panic}" {
		// committed before the panic: the write stays
		g, _ := fox.New()
		for _, p := range []string{"/a", "/a/b", "/a/c"} {
			g.MustHandle("GET", p, h, fx.WithVer(1))
		}
		before = hist.Observe(g, poolPrefix)
	}
	desc := "panic during " + entry + " on {GET /a, GET /a/b}"
	if _, ok := pv.(boomVal); !ok && !(goexit && pv == nil) {
		return "panic-swallowed", fmt.Sprintf("the panic did not propagate unchanged (got %v): %s", pv, desc)
	}
	var after string
	var lockErr any
	func() {
		defer func() { lockErr = recover() }()
		after = hist.Observe(f, poolPrefix)
	}()
	if lockErr != nil || after != before {
		return "not-atomic", fmt.Sprintf("after the panic the router reads\n%s    want the state before (%v)\n%s    %s", ind(after), lockErr, ind(before), desc)
	}
	func() {
		defer func() { lockErr = recover() }()
		if err := f.Updates(func(txn *fox.Txn) error { _, err := txn.Handle("GET", "/after", h); return err }); err != nil {
			lockErr = err
		}
	}()
	if lockErr != nil || !f.Has("GET", "/after") {
		return "no-new-txn", fmt.Sprintf("a new write transaction is not accepted after the panic (%v): %s", lockErr, desc)
	}
	return "", ""
}

var panicEntries = []string{"Router.Handle", "Router.Update", "Router.NewRoute+HandleRoute", "Updates{Handle ok; Handle panicking}", "Updates{Delete; Update panicking}", "Txn(true){Handle panicking} with deferred Abort", "Updates{Handle; Commit; panic}", "Updates{Handle; Abort; panic}", "Updates{Handle; Delete; runtime.Goexit}", "Txn(true){Handle; runtime.Goexit} with deferred Abort"}

func init() {
	mc.Register(&mc.Check{
		ID:    "C04",
		Level: "model_checking",
		Rule: "sequential: every transaction body up to a length over a 21-operation alphabet, from every seed state, ended in 7 ways (commit, abort, commit-then-abort, abort-then-commit, Updates returning nil / an error / panicking), with the router and the transaction observed after every step (fault enumeration over every prefix, since every prefix is itself an enumerated body); " +
			"concurrent: all interleavings up to a preemption bound of a 3-operation transaction (5 endings) against two reader threads, linearizability oracle where a transaction is one atomic operation; distinct_nontrivial = bodies of >=2 operations x seeds x endings + distinct concurrent outcomes",
		Assumptions: []string{
			"expected observations for a model state are produced by a fresh router holding exactly that state (the plain read APIs are validated against the map model by C02)",
			"lock release is decided by the shim (locking a held mutex in the sequential part panics instead of hanging)",
		},
		WorkerInit: nil,
		Parts: []mc.Part{
			{Name: "sequential", Run: func(c *mc.Ctx, r *mc.Result) {
				un := mc.DeterministicPools()
				defer un()
				runSeq(c, r, "prefixes")
				runSeq(c, r, "siblings")
				runSeq(c, r, "methods")
				runSeq(c, r, "infix")
			}, Replay: func(c *mc.Ctx, raw json.RawMessage) string {
				un := mc.DeterministicPools()
				defer un()
				var cs Case
				if err := json.Unmarshal(raw, &cs); err != nil {
					return "bad case"
				}
				_, msg := evalCase(cs, map[string]string{})
				return msg
			}},
			{Name: "panics", Run: func(c *mc.Ctx, r *mc.Result) {
				if c.Shard != 0 {
					return
				}
				un := mc.DeterministicPools()
				defer un()
				r.Bounds["panics"] = fmt.Sprintf("%d write entry points (direct calls and managed / manual transactions) with a middleware constructor panicking while the route is built", len(panicEntries))
				for _, e := range panicEntries {
					class, msg := evalPanicCall(e)
					r.Evaluations++
					r.DistinctNontrivial++
					if class != "" {
						r.Violate("panics", class, msg, e)
					}
				}
			}, Replay: func(c *mc.Ctx, raw json.RawMessage) string {
				un := mc.DeterministicPools()
				defer un()
				var e string
				if err := json.Unmarshal(raw, &e); err != nil {
					return "bad case"
				}
				_, msg := evalPanicCall(e)
				return msg
			}},
			{Name: "concurrent", Run: func(c *mc.Ctx, r *mc.Result) {
				bound := 3
				if c.Quick() {
					bound = 2
				}
				sub := mc.NewResult()
				for _, sc := range concScenarios(c.Quick()) {
					mc.Explore(c, sub, "concurrent", sc, mc.ExploreOpts{Bound: bound})
				}
				sub.DistinctNontrivial = 0
				mc.CountNontrivial(sub)
				r.Merge(sub)
			}, Replay: func(c *mc.Ctx, raw json.RawMessage) string { return mc.ReplaySched(concScenarios(false), raw) }},
		},
	})
}
