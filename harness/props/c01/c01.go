// Package c01: routing selects the documented route with the correct parameters.
package c01

import (
	"encoding/json"
	"fmt"
	"runtime/debug"
	"strings"

	"verifharness/mc"
	"verifharness/ref"
	"verifharness/rsx"
)

// PoolDef is a named pattern pool with its request alphabet.
type PoolDef struct {
	Name     string
	Patterns []string
	Paths    []string
	Hosts    []string
	K        int      // max subset size
	Always   []string // patterns present in every set (fan-out pools)
	Other    []string // patterns registered under POST in every set (several methods in one tree)
	// AfterDelete: every set is additionally built with each further pool pattern registered and
	// deleted again (the router went through a node split and a merge); only those routers are evaluated
	AfterDelete bool
	// AfterAbort: every set is additionally built with each further pool pattern registered inside a write
	// transaction that is aborted
	AfterAbort bool
}

func fanStatics(n int) []string {
	const letters = "0123456789cdefghijklmnopqrstuvwxyzABCDEFGHIJKLMNOPQRSTUVWXYZ"
	out := make([]string, n)
	for i := 0; i < n; i++ {
		out[i] = string(letters[i])
	}
	return out
}

// Pools returns the pools for a tier.
func Pools(quick bool) []PoolDef {
	flatSegs := []string{"a", "ab", "{}", "a{}", "*{}", "a*{}"}
	reqSegs := []string{"a", "b", "ab", "aa"}
	pathDepth := 4
	k := 4
	if quick {
		pathDepth = 3
		k = 3
	}
	flat := append([]string{"/"}, rsx.GenPatterns(flatSegs, 2, true, "")...)
	deep := rsx.GenPatterns([]string{"ab", "{}", "*{}", "a*{}"}, 3, false, "")
	pools := []PoolDef{
		{Name: "flat", Patterns: flat, Paths: rsx.GenPaths(reqSegs, pathDepth), Hosts: []string{""}, K: k - boolInt(!quick)},
		{Name: "deep", Patterns: deep, Paths: rsx.GenPaths([]string{"a", "ab", "b"}, 4), Hosts: []string{""}, K: k - boolInt(!quick)},
	}
	// a smaller core pool explored one size deeper
	core := append([]string{"/"}, rsx.GenPatterns([]string{"a", "{}", "a{}", "*{}"}, 2, true, "")...)
	pools = append(pools, PoolDef{Name: "core", Patterns: core, Paths: rsx.GenPaths(reqSegs, pathDepth), Hosts: []string{""}, K: k})
	// deep3: the shape in which nested backtracking happens (depth-3 patterns, depth-3..4 paths)
	deep3 := rsx.GenPatterns([]string{"ab", "{}", "a*{}"}, 3, false, "")
	pools = append(pools, PoolDef{Name: "deep3", Patterns: deep3, Paths: rsx.GenPaths([]string{"a", "ab", "b", "aa"}, 4), Hosts: []string{""}, K: k})
	// several methods: the same generated sets under GET next to a fixed, overlapping set under POST and a custom method
	pools = append(pools, PoolDef{Name: "methods", Patterns: core, Paths: rsx.GenPaths(reqSegs, 3), Hosts: []string{""}, K: 2,
		Other: []string{"/a/{p1}", "/{p0}", "/*{c0}/a", "/a"}})
	// bytes pool: static segments whose first byte sorts below '*' ('$', '!'), between '*' and '{' ('+')
	// and above '{' ('~'): the position of the wildcard edges among sorted children varies
	bytesPats := append([]string{"/"}, rsx.GenPatterns([]string{"$", "!a", "+", "~", "{}", "*{}"}, 2, true, "")...)
	pools = append(pools, PoolDef{Name: "bytes", Patterns: bytesPats, Paths: rsx.GenPaths([]string{"$", "!a", "+", "~", "b"}, 3), Hosts: []string{""}, K: k - 1})
	// after-delete: the core pool again, every set built with one more pattern registered and deleted
	pools = append(pools, PoolDef{Name: "core-after-delete", Patterns: core, Paths: rsx.GenPaths(reqSegs, 3), Hosts: []string{""}, K: k - 1, AfterDelete: true})
	// siblings-after-abort: up to four siblings with distinct first bytes under "/" and under "/b/" (an edge slice
	// that grew one by one has spare capacity at three children), every set built with each further pattern
	// registered inside a write transaction that is aborted: nothing of it may show
	sibs := []string{"/$", "/!a", "/+", "/b", "/~", "/{p0}", "/*{c0}", "/b/$", "/b/+", "/b/a", "/b/~", "/b/{p1}"}
	pools = append(pools, PoolDef{Name: "siblings-after-abort", Patterns: sibs, Paths: rsx.GenPaths([]string{"$", "!a", "+", "b", "~", "a"}, 2), Hosts: []string{""}, K: 4, AfterAbort: true})
	// hostname pool
	var hostPats []string
	for _, h := range []string{"a.b", "b.a.b", "{h}.b", "a.{t}", "a{m}.b"} {
		for _, p := range []string{"/", "/a", "/a/", "/{p0}", "/*{c0}", "/{p0}/a"} {
			hostPats = append(hostPats, h+p)
		}
	}
	hostPats = append(hostPats, "/", "/a", "/a/", "/{p0}", "/*{c0}")
	hosts := []string{"", "a.b", "a.b:80", "a.b.", "a.b.:80", "b.a.b.:8080", "b.a.b", "x.b", "a.x", "ab.b", "a.b.c", "c.a.b", "a.bb", "aa.b", "b", "a", ".b", "a.", "1.2.3.4", "[::1]:80", "A.B"}
	pools = append(pools, PoolDef{Name: "host", Patterns: hostPats, Paths: rsx.GenPaths([]string{"a", "b"}, 2), Hosts: hosts, K: k - 1 + boolInt(quick)*0})
	// host2 pool: several hostname parameters inside one radix node, with and without static labels after them
	var host2Pats []string
	for _, h := range []string{"{h}.{t}.b", "{h}.{t}", "a.{h}.{t}.b", "{h}.a.{t}", "{h}.{t}.b.a", "{h}.{t}.{u}"} {
		for _, p := range []string{"/", "/a", "/{p0}"} {
			host2Pats = append(host2Pats, h+p)
		}
	}
	host2Pats = append(host2Pats, "/", "/a", "/{p0}")
	hosts2 := []string{"", "x.y.b", "x.y", "a.x.y.b", "x.a.y", "x.y.b.a", "x.b", "x.y.b:80", "x..b", ".y.b", "x.y.c", "x.y.b.", "x.y.z", "b", "x.y.", "x.y.b.a.c"}
	pools = append(pools, PoolDef{Name: "host2", Patterns: host2Pats, Paths: rsx.GenPaths([]string{"a", "b"}, 1), Hosts: hosts2, K: k - 1})
	// fan-out pools: N static siblings under "/" and under a parameter, N around the 50-child switch
	for _, n := range []int{49, 50, 51, 52} {
		if quick && n != 51 {
			continue
		}
		var always []string
		for _, s := range fanStatics(n) {
			always = append(always, "/"+s, "/{p0}/"+s)
		}
		small := []string{"/a", "/{p0}", "/*{c0}", "/a/{p1}", "/{p0}/a", "/{p0}/{p1}", "/a/*{c1}", "/a{p0}"}
		var paths []string
		paths = append(paths, rsx.GenPaths([]string{"a", "b", "0", "Z"}, 2)...)
		pools = append(pools, PoolDef{Name: fmt.Sprintf("fan%d", n), Patterns: small, Paths: paths, Hosts: []string{""}, K: 2, Always: always})
	}
	// long-paths: request paths around and beyond 64 KiB whose walk has to backtrack after the long segment (offsets
	// that do not fit 16 bits)
	var longPaths []string
	for _, n := range []int{65530, 65535, 65536, 65541, 70000, 131080} {
		pad := strings.Repeat("s", n)
		longPaths = append(longPaths, "/"+pad+"/xy", "/"+pad+"/x", "/a/"+pad+"/xy", "/"+pad+"/xz/")
	}
	pools = append(pools, PoolDef{Name: "long-paths", Patterns: []string{"/{p0}/x", "/{p0}/{p1}", "/{p0}/xz", "/*{c0}", "/a/{p0}/x", "/a/*{c0}/xy", "/{p0}/xz/", "/*{c0}/"}, Paths: longPaths, Hosts: []string{""}, K: 2})
	return pools
}

func boolInt(b bool) int {
	if b {
		return 1
	}
	return 0
}

// Case is a replayable C01 case.
type Case struct {
	Set []rsx.RouteSpec `json:"set"`
	Req rsx.Req         `json:"req"`
	// Extra, when set, is registered after Set and deleted again before the request
	Extra string `json:"extra,omitempty"`
	// Aborted: Extra was registered inside a write transaction that was aborted (instead of registered and deleted)
	Aborted bool `json:"aborted,omitempty"`
}

type aux = rsx.TxnViews

func buildAux(e *rsx.Env) (*aux, error) { return e.BuildTxnViews() }

// roundTrip checks that substituting the reported values into the pattern reproduces host+path.
func roundTrip(pat *ref.Pattern, kv []ref.KV, host, path string) string {
	if len(kv) != len(pat.Names) {
		return fmt.Sprintf("%d values reported for %d wildcards", len(kv), len(pat.Names))
	}
	vals := make([]string, len(kv))
	for i, p := range kv {
		if p.K != pat.Names[i] {
			return fmt.Sprintf("value %d reported under name %q, pattern declares %q", i, p.K, pat.Names[i])
		}
		if p.V == "" {
			return fmt.Sprintf("empty value for %q", p.K)
		}
		vals[i] = p.V
	}
	// named parameters must be delimiter free
	i := 0
	for _, t := range pat.HostToks {
		if t.Kind == ref.Param {
			if strings.Contains(vals[i], ".") {
				return fmt.Sprintf("host parameter %q=%q contains a delimiter", t.Name, vals[i])
			}
			i++
		}
	}
	for _, t := range pat.PathToks {
		if t.Kind == ref.Param && strings.Contains(vals[i], "/") {
			return fmt.Sprintf("parameter %q=%q contains '/'", t.Name, vals[i])
		}
		if t.Kind != ref.Static {
			i++
		}
	}
	h, p := pat.Substitute(vals)
	wantHost := ""
	if len(pat.HostToks) > 0 {
		wantHost = ref.StripHost(host)
	}
	if h != wantHost || p != path {
		return fmt.Sprintf("substituting the reported values gives %q%q, request was %q%q", h, p, wantHost, path)
	}
	return ""
}

// eval evaluates one request; returns (abstained, nontrivial, class, msg).
func eval(e *rsx.Env, a *aux, rq rsx.Req) (abst, nontriv bool, class, msg string) {
	// a panic of the implementation on any entry point (the transaction views included) is a finding
	defer func() {
		if pv := recover(); pv != nil {
			abst, nontriv, class = false, true, "panic"
			msg = fmt.Sprintf("panic: %v: set %s request %s\n%s", pv, rsx.SetString(e.Set), rq, mc.NormStack(string(debug.Stack()), 10))
		}
	}()
	return eval0(e, a, rq)
}

func eval0(e *rsx.Env, a *aux, rq rsx.Req) (bool, bool, string, string) {
	want, decided := e.RefLookup(rq.Method, rq.Host, rq.MatchPath())
	o := e.Observe(rq)
	if o.Panic != "" {
		return false, true, "panic", "panic: " + o.Panic
	}
	if o.Cap.Reentry != "" {
		return false, true, "context-changed-by-reentry", fmt.Sprintf("%s: set %s request %s (handler %d)", o.Cap.Reentry, rsx.SetString(e.Set), rq, o.Cap.Handler)
	}
	nontrivial := (want.Route != nil && !want.Tsr && len(want.Params) >= 2) || e.Contenders(rq.Method, rq.Host, rq.MatchPath()) >= 2
	hdr := func() string {
		w := "no route"
		if want.Route != nil {
			w = fmt.Sprintf("route %d %s [%s] tsr=%v", want.Route.ID, want.Route.Pat.Raw, rsx.KVString(want.Params), want.Tsr)
		}
		return fmt.Sprintf("set %s request %s\n    reference: %s\n    observed:  %s", rsx.SetString(e.Set), rq, w, o)
	}
	// entry points agree with each other (always checked, also in the gray zone)
	if o.RevID != o.LkID || o.RevTsr != o.LkTsr {
		return false, nontrivial, "entrypoints-disagree", "Reverse and Lookup disagree: " + hdr()
	}
	if !o.LkCtxOK {
		return false, nontrivial, "entrypoints-disagree", "Lookup's context does not carry the returned route: " + hdr()
	}
	implID := 0
	if !o.RevTsr {
		implID = o.RevID
	}
	if implID != 0 {
		if o.Cap.Handler != implID || o.Cap.Runs != 1 {
			return false, nontrivial, "entrypoints-disagree", "ServeHTTP ran a different handler than Lookup selected: " + hdr()
		}
		if !rsx.SameKV(o.Cap.Params, o.LkParams) {
			return false, nontrivial, "entrypoints-disagree", "ServeHTTP Context.Params differ from Lookup's: " + hdr()
		}
		if o.ItID != implID {
			return false, nontrivial, "entrypoints-disagree", "Iter.Reverse disagrees with Reverse: " + hdr()
		}
		if o.Cap.Pattern != e.Set[implID-1].Pattern || o.Cap.RouteNil {
			return false, nontrivial, "entrypoints-disagree", "Context.Pattern/Route inside the handler do not name the selected route: " + hdr()
		}
		if msg := roundTrip(e.RRoutes[implID-1].Pat, o.LkParams, rq.Host, rq.MatchPath()); msg != "" {
			return false, nontrivial, "roundtrip", msg + ": " + hdr()
		}
	} else {
		if o.Cap.Handler > 0 && !(o.RevTsr && e.RRoutes[o.RevID-1].Ignore) {
			return false, nontrivial, "entrypoints-disagree", "ServeHTTP ran a route handler although Lookup found no direct match: " + hdr()
		}
	}
	// transactions agree with the router
	if d := a.Disagree(rq, &o); d != "" {
		return false, nontrivial, "txn-disagree", d + ": " + hdr()
	}
	if !decided || e.GrayPrefixedCatchAll(o.LkID, o.LkParams) {
		return true, nontrivial, "", ""
	}
	// In hostname mode a trailing-slash opportunity under a matching host suppresses the path-only
	// fallback; whether such an opportunity exists is C08's business, so C01 abstains when the
	// verdict hinges on it.
	if (want.Tsr && want.Route.Pat.HostLen > 0) || (o.RevTsr && o.RevID > 0 && e.RRoutes[o.RevID-1].Pat.HostLen > 0) {
		return true, nontrivial, "", ""
	}
	wantID := 0
	if want.Route != nil && !want.Tsr {
		wantID = want.Route.ID
	}
	if implID != wantID {
		return false, nontrivial, "wrong-route", "wrong route selected: " + hdr()
	}
	if wantID != 0 && !rsx.SameKV(o.LkParams, want.Params) {
		return false, nontrivial, "wrong-params", "wrong parameters: " + hdr()
	}
	return false, nontrivial, "", ""
}

func runPool(c *mc.Ctx, r *mc.Result, pd PoolDef) {
	r.Bounds["pool."+pd.Name] = fmt.Sprintf("%d patterns, subsets<=%d (+%d fixed), %d paths x %d hosts", len(pd.Patterns), pd.K, len(pd.Always), len(pd.Paths), len(pd.Hosts))
	stopped := false
	rsx.Subsets(len(pd.Patterns), pd.K, func(i int, idx []int) {
		if !c.Mine(i) || stopped {
			return
		}
		if c.ExpiredEvery(256) {
			stopped = true
			r.NotExhaustive = append(r.NotExhaustive, fmt.Sprintf("pool %s: time guard hit at subset #%d", pd.Name, i))
			return
		}
		set := make([]rsx.RouteSpec, 0, len(idx)+len(pd.Always))
		for _, j := range idx {
			set = append(set, rsx.RouteSpec{Method: "GET", Pattern: pd.Patterns[j]})
		}
		for _, p := range pd.Always {
			set = append(set, rsx.RouteSpec{Method: "GET", Pattern: p})
		}
		for i, p := range pd.Other {
			set = append(set, rsx.RouteSpec{Method: []string{"POST", "PING", "FOO", "GIT"}[i%4], Pattern: p})
		}
		evalEnv := func(e *rsx.Env, extra string) {
			a, err := buildAux(e)
			if err != nil {
				r.Violate("rsx", "txn-disagree", err.Error()+" set "+rsx.SetString(set), Case{Set: set, Extra: extra, Aborted: pd.AfterAbort})
				return
			}
			r.States++
			reqMethods := []string{"GET"}
			if len(pd.Other) > 0 {
				// custom methods sharing length and first letter with a standard one (PING/POST, GIT/GET) have trees of their own
				reqMethods = []string{"GET", "POST", "FOO", "PUT", "PING", "GIT", "PRI"}
			}
			pre := ""
			if extra != "" {
				pre = preOf(extra, pd.AfterAbort)
			}
			for _, h := range pd.Hosts {
				for _, p := range pd.Paths {
					for _, m := range reqMethods {
						rq := rsx.Req{Method: m, Host: h, Path: p}
						abst, nontriv, class, msg := eval(e, a, rq)
						r.Evaluations++
						r.Transitions++
						if abst {
							r.Abstained++
						}
						if nontriv {
							r.DistinctNontrivial++
						}
						if class != "" {
							if len(msg) > 3000 {
								msg = msg[:1200] + " … " + msg[len(msg)-1200:]
							}
							r.Violate("rsx", class, pre+msg, Case{Set: set, Req: rq, Extra: extra, Aborted: pd.AfterAbort})
						}
					}
				}
			}
			a.Close()
		}
		if pd.AfterDelete || pd.AfterAbort {
			inSet := map[string]bool{}
			for _, s := range set {
				inSet[s.Pattern] = true
			}
			for _, extra := range pd.Patterns {
				if inSet[extra] {
					continue
				}
				var e *rsx.Env
				var err error
				if pd.AfterAbort {
					e, err = rsx.BuildAfterAbort(set, "GET", extra, rsx.Profile{})
				} else {
					e, err = rsx.BuildAfterDelete(set, "GET", extra, false, rsx.Profile{})
				}
				if err != nil {
					r.Count("histories_rejected_by_router", 1)
					continue
				}
				evalEnv(e, extra)
			}
			r.Count("sets", 1)
			return
		}
		e, err := rsx.Build(set, rsx.Profile{})
		if err != nil {
			r.Count("sets_rejected_by_router", 1)
			return
		}
		r.Count("sets", 1)
		evalEnv(e, "")
		if i < 3 {
			r.Sample(map[string]any{"pool": pd.Name, "set": rsx.SetString(set), "requests": len(pd.Hosts) * len(pd.Paths)})
		}
	})
}

func preOf(extra string, aborted bool) string {
	if aborted {
		return fmt.Sprintf("[after an aborted transaction that registered %s] ", extra)
	}
	return fmt.Sprintf("[after Handle(%s) and Delete(%s)] ", extra, extra)
}

func replay(c *mc.Ctx, raw json.RawMessage) string {
	var cs Case
	if err := json.Unmarshal(raw, &cs); err != nil {
		return "bad case: " + err.Error()
	}
	var e *rsx.Env
	var err error
	pre := ""
	if cs.Extra != "" && cs.Aborted {
		e, err = rsx.BuildAfterAbort(cs.Set, "GET", cs.Extra, rsx.Profile{})
		pre = preOf(cs.Extra, true)
	} else if cs.Extra != "" {
		e, err = rsx.BuildAfterDelete(cs.Set, "GET", cs.Extra, false, rsx.Profile{})
		pre = preOf(cs.Extra, false)
	} else {
		e, err = rsx.Build(cs.Set, rsx.Profile{})
	}
	if err != nil {
		return ""
	}
	a, err := buildAux(e)
	if err != nil {
		return err.Error()
	}
	defer a.Close()
	_, _, _, msg := eval(e, a, cs.Req)
	if msg != "" {
		msg = pre + msg
	}
	return msg
}

func init() {
	mc.Register(&mc.Check{
		ID:    "C01",
		Level: "exploration",
		Rule: "every subset (size<=K) of each generated pattern pool that the router accepts x every request of the pool's alphabet; each (set,request) pair is distinct by construction; " +
			"non-trivial = at least two routes of the set match the request when taken alone (priority decides), or the selected route binds >=2 wildcards",
		Assumptions: []string{
			"reference token-trie matcher written from the README priority rules (static > named parameter > catch-all, shortest infix capture first)",
			"gray zone abstained: a catch-all preceded by static text in its segment capturing a value that starts with '/'",
			"request paths without empty segments over a 4-segment alphabet",
		},
		Parts: []mc.Part{{
			Name: "rsx",
			Run: func(c *mc.Ctx, r *mc.Result) {
				for _, pd := range Pools(c.Quick()) {
					runPool(c, r, pd)
				}
			},
			Replay: replay,
		}},
	})
}
