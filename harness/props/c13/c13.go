// Package c13: middleware is applied exactly per scope and in registration order.
package c13

import (
	"encoding/json"
	"errors"
	"fmt"
	"strings"

	"github.com/tigerwill90/fox"
	vs "github.com/tigerwill90/fox/verifsync"

	"verifharness/fx"
	"verifharness/mc"
)

var trace *[]string

// (not inlined: every value it returns is a closure of the same function literal, as with any middleware or
// handler constructor used more than once; their code pointers are equal, only their captured values differ)
//
//go:noinline
func mw(id string) fox.MiddlewareFunc {
	return func(next fox.HandlerFunc) fox.HandlerFunc {
		return func(c fox.Context) {
			*trace = append(*trace, id+"(")
			next(c)
			*trace = append(*trace, ")"+id)
		}
	}
}

// (not inlined: every value it returns is a closure of the same function literal, as with any middleware or
// handler constructor used more than once; their code pointers are equal, only their captured values differ)
//
//go:noinline
func handler(id string) fox.HandlerFunc {
	return func(c fox.Context) {
		*trace = append(*trace, id)
		c.Writer().WriteHeader(200)
	}
}

var scopes = []fox.HandlerScope{fox.RouteHandler, fox.NoRouteHandler, fox.NoMethodHandler, fox.RedirectHandler, fox.OptionsHandler}
var scopeNames = []string{"route", "no-route", "no-method", "redirect", "options"}

// Config is one middleware configuration.
type Config struct {
	Globals  []int `json:"globals"`   // scope masks, registration order (mask 255 = WithMiddleware i.e. all handlers; 511 = WithMiddlewareFor with all eight bits)
	Default  bool  `json:"default"`   // DefaultOptions() present ...
	DefPos   int   `json:"def_pos"`   // ... after DefPos global middleware options (0 = first)
	RouteMws int   `json:"route_mws"` // number of route-specific middleware on route A (0..2)
	Update   int   `json:"update"`    // -1: no update; otherwise number of route-specific middleware after Update
	// RouteRedirect: trailing-slash redirection is enabled on route A only (router-wide flag off)
	RouteRedirect bool `json:"route_redirect,omitempty"`
	// GlobalIgnore (only with RouteRedirect): the router ignores trailing slashes by default and route A
	// overrides that with its own redirect option
	GlobalIgnore bool `json:"global_ignore,omitempty"`
	// APat selects route A's pattern: 0 "/a", 1 "/f/*{p}/m" (infix catch-all with a suffix), 2 "/a/{p}"
	APat int `json:"a_pattern,omitempty"`
	// UpdateVia selects how the update is made: 0 Router.Update; 1 Txn.Update inside Router.Updates; 2 the same
	// followed by a full Txn.Iter before the function returns; 3 followed by Txn.Snapshot; 4 an unmanaged write
	// transaction (Txn.Update, Commit)
	UpdateVia int `json:"update_via,omitempty"`
}

var updateVias = []string{"Router.Update", "Updates{Txn.Update}", "Updates{Txn.Update; Txn.Iter}", "Updates{Txn.Update; Txn.Snapshot}", "Txn.Update + Commit", "Updates{Txn.Handle(GET /); Txn.Update} aborted"}

var aPatterns = []struct{ pat, req string }{{"/a", "/a"}, {"/f/*{p}/m", "/f/x/y/m"}, {"/a/{p}", "/a/v"}}

func (c Config) String() string {
	return fmt.Sprintf("routeA=%s globals(masks)=%v default=%v@%d routeA-mws=%d update=%d (%s) redirect-per-route=%v router-wide-ignore=%v", aPatterns[c.APat].pat, c.Globals, c.Default, c.DefPos, c.RouteMws, c.Update, updateVias[c.UpdateVia], c.RouteRedirect, c.GlobalIgnore)
}

func expected(cfg Config, kind int, routeIDs []string, h string) string {
	var open, close []string
	for i, m := range cfg.Globals {
		if fox.HandlerScope(m)&scopes[kind] != 0 {
			id := fmt.Sprintf("g%d", i)
			open = append(open, id+"(")
			close = append([]string{")" + id}, close...)
		}
	}
	if kind == 0 {
		for _, id := range routeIDs {
			open = append(open, id+"(")
			close = append([]string{")" + id}, close...)
		}
	}
	return strings.Join(append(append(open, h), close...), " ")
}

func routeMws(prefix string, n int) ([]fox.RouteOption, []string) {
	var opts []fox.RouteOption
	var ids []string
	for i := 0; i < n; i++ {
		id := fmt.Sprintf("%s%d", prefix, i)
		ids = append(ids, id)
		opts = append(opts, fox.WithMiddleware(mw(id)))
	}
	return opts, ids
}

// evalConfig builds the router and checks every handler kind and entry point.
func evalConfig(cfg Config) (class, msg string) {
	var tr []string
	trace = &tr
	var opts []fox.GlobalOption
	for i, m := range cfg.Globals {
		if cfg.Default && cfg.DefPos == i {
			opts = append(opts, fox.DefaultOptions())
		}
		if m == 255 {
			opts = append(opts, fox.WithMiddleware(mw(fmt.Sprintf("g%d", i))))
		} else {
			opts = append(opts, fox.WithMiddlewareFor(fox.HandlerScope(m), mw(fmt.Sprintf("g%d", i))))
		}
	}
	if cfg.Default && cfg.DefPos >= len(cfg.Globals) {
		opts = append(opts, fox.DefaultOptions())
	}
	opts = append(opts,
		fox.WithNoRouteHandler(handler("NR")), fox.WithNoMethodHandler(handler("NM")), fox.WithOptionsHandler(handler("OP")))
	if !cfg.RouteRedirect {
		opts = append(opts, fox.WithRedirectTrailingSlash(true))
	} else if cfg.GlobalIgnore {
		opts = append(opts, fox.WithIgnoreTrailingSlash(true))
	}
	f, err := fox.New(opts...)
	if err != nil {
		return "error", "fox.New: " + err.Error()
	}
	aOpts, aIDs := routeMws("a", cfg.RouteMws)
	if cfg.RouteRedirect {
		aOpts = append(aOpts, fox.WithRedirectTrailingSlash(true))
	}
	patA, reqA := aPatterns[cfg.APat].pat, aPatterns[cfg.APat].req
	rtA, err := f.Handle("GET", patA, handler("HA"), aOpts...)
	if err != nil {
		return "error", err.Error()
	}
	bOpts, bIDs := routeMws("b", 2)
	rtB, err := f.Handle("GET", "/b", handler("HB"), bOpts...)
	if err != nil {
		return "error", err.Error()
	}
	// route C ignores trailing slashes (served through the slash-adjusted branch of ServeHTTP)
	cOpts, cIDs := routeMws("c", 1)
	cOpts = append(cOpts, fox.WithIgnoreTrailingSlash(true))
	if _, err := f.Handle("GET", "/c/{p}", handler("HC"), cOpts...); err != nil {
		return "error", err.Error()
	}
	hA := "HA"
	if cfg.Update >= 0 {
		uOpts, uIDs := routeMws("u", cfg.Update)
		if cfg.RouteRedirect {
			uOpts = append(uOpts, fox.WithRedirectTrailingSlash(true))
		}
		switch cfg.UpdateVia {
		case 0:
			rtA, err = f.Update("GET", patA, handler("HA2"), uOpts...)
		case 1, 2, 3:
			err = f.Updates(func(txn *fox.Txn) error {
				var e error
				if rtA, e = txn.Update("GET", patA, handler("HA2"), uOpts...); e != nil {
					return e
				}
				switch cfg.UpdateVia {
				case 2:
					for range txn.Iter().All() {
					}
				case 3:
					txn.Snapshot().Has("GET", patA)
				}
				return nil
			})
		case 4:
			txn := f.Txn(true)
			rtA, err = txn.Update("GET", patA, handler("HA2"), uOpts...)
			txn.Commit()
		case 5:
			// an aborted managed transaction that first registers a route on the node above route A (GET /, an
			// intermediate node with children), then updates A: nothing of it may show
			abort := errors.New("abort")
			var upd *fox.Route
			err = f.Updates(func(txn *fox.Txn) error {
				zOpts, _ := routeMws("z", 1)
				if _, e := txn.Handle("GET", "/", handler("HZ"), zOpts...); e != nil {
					return e
				}
				var e error
				if upd, e = txn.Update("GET", patA, handler("HA2"), uOpts...); e != nil {
					return e
				}
				return abort
			})
			if errors.Is(err, abort) {
				err = nil
			}
			_ = upd
		}
		if err != nil {
			return "error", err.Error()
		}
		if cfg.UpdateVia != 5 {
			aIDs = uIDs
			hA = "HA2"
		}
	}
	run := func(do func()) string {
		tr = tr[:0]
		do()
		return strings.Join(tr, " ")
	}
	serve := func(m, p string) func() {
		return func() { f.ServeHTTP(fx.NewRW(), fx.Req(m, "", p)) }
	}
	cfgGlobalsAll := cfg
	checks := []struct {
		name string
		got  string
		want string
	}{
		{"ServeHTTP GET " + reqA + " (route handler)", run(serve("GET", reqA)), expected(cfg, 0, aIDs, hA)},
		{"ServeHTTP GET /c/v/ (route handler reached by an ignored trailing slash)", run(serve("GET", "/c/v/")), expected(cfg, 0, cIDs, "HC")},
		{"ServeHTTP GET /b (route handler, other route)", run(serve("GET", "/b")), expected(cfg, 0, bIDs, "HB")},
		{"ServeHTTP GET /none (no-route handler)", run(serve("GET", "/none")), expected(cfg, 1, nil, "NR")},
		{"ServeHTTP POST " + reqA + " (no-method handler)", run(serve("POST", reqA)), expected(cfg, 2, nil, "NM")},
		{"ServeHTTP GET " + reqA + "/ (redirect handler)", run(serve("GET", reqA+"/")), strings.TrimSpace(strings.Replace(expected(cfg, 3, nil, "@"), "@", "", 1))},
		{"ServeHTTP OPTIONS " + reqA + " (options handler)", run(serve("OPTIONS", reqA)), expected(cfg, 4, nil, "OP")},
		{"Route.Handle (bare handler)", run(func() { rtA.Handle(fox.NewTestContextOnly(fx.NewRW(), fx.Req("GET", "", "/a"))) }), hA},
		{"Route.HandleMiddleware (route-specific chain only)", run(func() { rtA.HandleMiddleware(fox.NewTestContextOnly(fx.NewRW(), fx.Req("GET", "", "/a"))) }), expected(Config{}, 0, aIDs, hA)},
		{"Lookup + Route.HandleMiddleware (the route a request resolves to)", run(func() {
			rt, cc, _ := f.Lookup(fx.WrapRW(fx.NewRW()), fx.Req("GET", "", reqA))
			if rt != nil {
				rt.HandleMiddleware(cc)
				cc.Close()
			}
		}), expected(Config{}, 0, aIDs, hA)},
		{"Route.HandleMiddleware of the other route", run(func() { rtB.HandleMiddleware(fox.NewTestContextOnly(fx.NewRW(), fx.Req("GET", "", "/b"))) }), expected(Config{}, 0, bIDs, "HB")},
	}
	_ = cfgGlobalsAll
	for _, c := range checks {
		got := strings.Join(strings.Fields(c.got), " ")
		want := strings.Join(strings.Fields(c.want), " ")
		if got != want {
			return "wrong-chain", fmt.Sprintf("%s: middleware trace [%s], want [%s]\n    configuration: %s", c.name, got, want, cfg)
		}
	}
	return "", ""
}

func configs(quick bool) []Config {
	// HandlerScope is a byte of which five bits are defined: masks carrying the three spare bits are arbitrary
	// masks too (511 stands for WithMiddlewareFor(HandlerScope(255)), 255 alone for WithMiddleware)
	masks8 := []int{int(fox.RouteHandler), int(fox.NoRouteHandler), int(fox.NoMethodHandler), int(fox.RedirectHandler), int(fox.OptionsHandler), 255, int(fox.RouteHandler | fox.NoRouteHandler), 0,
		511, int(fox.RouteHandler) | 1, int(fox.RouteHandler|fox.OptionsHandler) | 6, 7, int(fox.NoRouteHandler) | 4}
	var masks256 []int
	for m := 0; m < 256; m++ {
		if m == 255 {
			m = 511
		}
		masks256 = append(masks256, m)
	}
	var masks32 []int
	for m := 0; m < 32; m++ {
		masks32 = append(masks32, m<<3)
	}
	var lists [][]int
	var rec func(cur []int, masks []int, max int)
	rec = func(cur []int, masks []int, max int) {
		lists = append(lists, append([]int{}, cur...))
		if len(cur) == max {
			return
		}
		for _, m := range masks {
			rec(append(cur, m), masks, max)
		}
	}
	if quick {
		rec(nil, masks8, 2)
		// length 3 and more (spare capacity shapes) with a reduced mask set
		rec2 := [][]int{{255, int(fox.RouteHandler), int(fox.NoRouteHandler)}, {int(fox.RouteHandler), int(fox.RouteHandler), int(fox.RouteHandler)}, {255, 255, 255, 255, 255}, {int(fox.OptionsHandler), int(fox.RedirectHandler), int(fox.NoMethodHandler), 255, int(fox.RouteHandler)}}
		lists = append(lists, rec2...)
	} else {
		rec(nil, masks8, 3)
		rec(nil, masks32, 2)
		rec(nil, masks256, 1)
		lists = append(lists, []int{255, 255, 255, 255, 255}, []int{255, int(fox.RouteHandler), 255, int(fox.RouteHandler), 255, 255, 255})
	}
	var out []Config
	for _, l := range lists {
		// without DefaultOptions, and with it at every position of the option list
		for dp := -1; dp <= len(l); dp++ {
			for rm := 0; rm <= 2; rm++ {
				for _, up := range []int{-1, 0, 1} {
					out = append(out, Config{Globals: l, Default: dp >= 0, DefPos: max(dp, 0), RouteMws: rm, Update: up})
					if up != 0 {
						out = append(out, Config{Globals: l, Default: dp >= 0, DefPos: max(dp, 0), RouteMws: rm, Update: up, RouteRedirect: true})
					}
				}
			}
		}
	}
	// a router-wide ignore mode overridden by route A's own redirect option
	for _, c := range out[:len(out):len(out)] {
		if c.RouteRedirect && len(c.Globals) <= 2 {
			c.GlobalIgnore = true
			out = append(out, c)
		}
	}
	// the update made through transactions
	for _, c := range out[:len(out):len(out)] {
		if c.Update >= 0 && len(c.Globals) <= 1 && !c.Default && !c.GlobalIgnore {
			for v := 1; v < len(updateVias); v++ {
				c.UpdateVia = v
				out = append(out, c)
			}
		}
	}
	// route A on other pattern shapes (cached sub-nodes of infix catch-alls, parameters)
	base := len(out)
	for ap := 1; ap < len(aPatterns); ap++ {
		for _, c := range out[:base] {
			if len(c.Globals) <= 1 && !c.Default {
				c.APat = ap
				out = append(out, c)
			}
		}
	}
	return out
}

// ---------------------------------------------------------------------------------------------
// concurrent creation of routes
// ---------------------------------------------------------------------------------------------

func concScenario(nGlobals, nThreads, perRoute int) *mc.Scenario {
	return &mc.Scenario{
		Name:    fmt.Sprintf("NewRoute x%d, %d global middleware, %d route-specific each", nThreads, nGlobals, perRoute),
		Require: []vs.OpKind{vs.OpHook},
		Build: func() *mc.Instance {
			var tr []string
			trace = &tr
			var opts []fox.GlobalOption
			for i := 0; i < nGlobals; i++ {
				opts = append(opts, fox.WithMiddleware(mw(fmt.Sprintf("g%d", i))))
			}
			f, err := fox.New(opts...)
			if err != nil {
				panic(err)
			}
			routes := make([]*fox.Route, nThreads)
			ids := make([][]string, nThreads)
			bodies := make([]func(), nThreads)
			for t := 0; t < nThreads; t++ {
				t := t
				o, id := routeMws(fmt.Sprintf("r%d_", t), perRoute)
				ids[t] = id
				bodies[t] = func() {
					rt, err := f.NewRoute(fmt.Sprintf("/t%d", t), handler(fmt.Sprintf("H%d", t)), o...)
					if err != nil {
						panic(err)
					}
					routes[t] = rt
				}
			}
			return &mc.Instance{
				Bodies: bodies,
				Check: func(x *mc.Exec) (string, string, string) {
					for t := 0; t < nThreads; t++ {
						if pv, _ := x.S.PanicOf(t); pv != nil {
							return "panic", "panic", fmt.Sprint(pv)
						}
					}
					if x.S.Counts[vs.OpHook] < nThreads*(perRoute+1) {
						return "", "", "MACHINERY: verifPoint hooks in NewRoute not intercepted"
					}
					cfg := Config{}
					for i := 0; i < nGlobals; i++ {
						cfg.Globals = append(cfg.Globals, 255)
					}
					var outs []string
					for t := 0; t < nThreads; t++ {
						if err := f.HandleRoute("GET", routes[t]); err != nil {
							return "error", "error", err.Error()
						}
						tr = tr[:0]
						f.ServeHTTP(fx.NewRW(), fx.Req("GET", "", fmt.Sprintf("/t%d", t)))
						got := strings.Join(tr, " ")
						want := expected(cfg, 0, ids[t], fmt.Sprintf("H%d", t))
						outs = append(outs, got)
						if got != want {
							return strings.Join(outs, "|"), "chain-affected-by-other-route", fmt.Sprintf("route /t%d created concurrently with other routes runs [%s], want [%s]", t, got, want)
						}
						tr = tr[:0]
						routes[t].HandleMiddleware(fox.NewTestContextOnly(fx.NewRW(), fx.Req("GET", "", "/x")))
						got = strings.Join(tr, " ")
						want = expected(Config{}, 0, ids[t], fmt.Sprintf("H%d", t))
						if got != want {
							return strings.Join(outs, "|"), "chain-affected-by-other-route", fmt.Sprintf("HandleMiddleware of route /t%d created concurrently runs [%s], want [%s]", t, got, want)
						}
					}
					return "ok", "", ""
				},
			}
		},
	}
}

// concScenarioShared: every thread's first route option is the SAME WithMiddleware option value
// (holding nShared middleware), followed by its own option.
func concScenarioShared(nGlobals, nShared, nThreads int) *mc.Scenario {
	return &mc.Scenario{
		Name:    fmt.Sprintf("NewRoute x%d sharing one WithMiddleware option value of %d, %d global middleware", nThreads, nShared, nGlobals),
		Require: []vs.OpKind{vs.OpHook},
		Build: func() *mc.Instance {
			var tr []string
			trace = &tr
			var opts []fox.GlobalOption
			for i := 0; i < nGlobals; i++ {
				opts = append(opts, fox.WithMiddleware(mw(fmt.Sprintf("g%d", i))))
			}
			f, err := fox.New(opts...)
			if err != nil {
				panic(err)
			}
			var sharedIDs []string
			var sharedMws []fox.MiddlewareFunc
			for i := 0; i < nShared; i++ {
				id := fmt.Sprintf("s%d", i)
				sharedIDs = append(sharedIDs, id)
				sharedMws = append(sharedMws, mw(id))
			}
			shared := fox.WithMiddleware(sharedMws...)
			routes := make([]*fox.Route, nThreads)
			ids := make([][]string, nThreads)
			bodies := make([]func(), nThreads)
			for t := 0; t < nThreads; t++ {
				t := t
				own := fmt.Sprintf("o%d", t)
				ids[t] = append(append([]string{}, sharedIDs...), own, own+"b")
				bodies[t] = func() {
					rt, err := f.NewRoute(fmt.Sprintf("/t%d", t), handler(fmt.Sprintf("H%d", t)), shared, fox.WithMiddleware(mw(own)), fox.WithMiddleware(mw(own+"b")))
					if err != nil {
						panic(err)
					}
					routes[t] = rt
				}
			}
			return &mc.Instance{
				Bodies: bodies,
				Check: func(x *mc.Exec) (string, string, string) {
					for t := 0; t < nThreads; t++ {
						if pv, _ := x.S.PanicOf(t); pv != nil {
							return "panic", "panic", fmt.Sprint(pv)
						}
					}
					cfg := Config{}
					for i := 0; i < nGlobals; i++ {
						cfg.Globals = append(cfg.Globals, 255)
					}
					for t := 0; t < nThreads; t++ {
						if err := f.HandleRoute("GET", routes[t]); err != nil {
							return "error", "error", err.Error()
						}
						tr = tr[:0]
						f.ServeHTTP(fx.NewRW(), fx.Req("GET", "", fmt.Sprintf("/t%d", t)))
						got, want := strings.Join(tr, " "), expected(cfg, 0, ids[t], fmt.Sprintf("H%d", t))
						if got != want {
							return got, "chain-affected-by-other-route", fmt.Sprintf("route /t%d (built from an option value shared with other routes) runs [%s], want [%s]", t, got, want)
						}
						tr = tr[:0]
						routes[t].HandleMiddleware(fox.NewTestContextOnly(fx.NewRW(), fx.Req("GET", "", "/x")))
						got, want = strings.Join(tr, " "), expected(Config{}, 0, ids[t], fmt.Sprintf("H%d", t))
						if got != want {
							return got, "chain-affected-by-other-route", fmt.Sprintf("HandleMiddleware of route /t%d (shared option value) runs [%s], want [%s]", t, got, want)
						}
					}
					return "ok", "", ""
				},
			}
		},
	}
}

func concScenarios() []*mc.Scenario {
	var out []*mc.Scenario
	for _, g := range []int{0, 3} {
		for _, ns := range []int{1, 2, 3, 5} {
			out = append(out, concScenarioShared(g, ns, 2))
		}
	}
	out = append(out, concScenarioShared(0, 3, 3))
	for _, g := range []int{0, 1, 2, 3, 5, 6} {
		out = append(out, concScenario(g, 2, 1), concScenario(g, 2, 2))
	}
	out = append(out, concScenario(3, 3, 1), concScenario(5, 3, 2))
	return out
}

func init() {
	fox.VerifHook = vs.HookPoint
	mc.Register(&mc.Check{
		ID:    "C13",
		Level: "model_checking",
		Rule: "configurations: every list of global middleware up to a length over scope masks (with and without DefaultOptions) x route-specific lists x Update with another list, observed on all five handler kinds through ServeHTTP plus Route.Handle and Route.HandleMiddleware (two routes, so that one route's chain can be affected by the other); " +
			"schedules: all interleavings (unbounded) of 2-3 threads creating routes with route-specific middleware, scheduling points at the tagged verifPoints inside NewRoute; distinct_nontrivial = configurations with >=2 middleware in play + distinct concurrent outcomes",
		Assumptions: []string{
			"NewRoute contains no synchronisation operation: its interleavings are explored at the two tag-guarded verifPoint hooks (before each option is applied, before the chain is built); finer-grained races are left to the -race side pass",
		},
		Parts: []mc.Part{
			{Name: "configurations", Run: func(c *mc.Ctx, r *mc.Result) {
				cfgs := configs(c.Quick())
				r.Bounds["configurations"] = fmt.Sprintf("%d configurations x 11 observations", len(cfgs))
				for i, cfg := range cfgs {
					if !c.Mine(i) {
						continue
					}
					class, msg := evalConfig(cfg)
					r.Evaluations += 9
					r.States++
					r.Transitions += 9
					r.TracesValidated++
					if len(cfg.Globals)+cfg.RouteMws >= 2 {
						r.DistinctNontrivial++
					}
					if class != "" {
						r.Violate("configurations", class, msg, cfg)
					}
					if i == 777 {
						r.Sample(cfg)
					}
				}
			}, Replay: func(c *mc.Ctx, raw json.RawMessage) string {
				var cfg Config
				if err := json.Unmarshal(raw, &cfg); err != nil {
					return "bad case"
				}
				_, msg := evalConfig(cfg)
				return msg
			}},
			{Name: "schedules", Run: func(c *mc.Ctx, r *mc.Result) {
				sub := mc.NewResult()
				for _, sc := range concScenarios() {
					mc.Explore(c, sub, "schedules", sc, mc.ExploreOpts{Bound: -1})
				}
				mc.CountNontrivial(sub)
				r.Merge(sub)
			}, Replay: func(c *mc.Ctx, raw json.RawMessage) string { return mc.ReplaySched(concScenarios(), raw) }},
		},
	})
}
