// Package c07: routing depends only on the registered set, not on its history.
package c07

import (
	"encoding/json"
	"fmt"
	"runtime"
	"runtime/debug"
	"sort"
	"strings"
	"sync"
	"time"

	"github.com/tigerwill90/fox"

	"verifharness/fx"
	"verifharness/hist"
	"verifharness/mc"
	"verifharness/props/c02"
	"verifharness/ref"
)

// Probe is one request.
type Probe struct{ Method, Host, Path string }

// probesFor derives requests from every pattern of the pool.
func probesFor(p *hist.Pool) []Probe {
	seen := map[Probe]bool{}
	var out []Probe
	add := func(pr Probe) {
		if !seen[pr] {
			seen[pr] = true
			out = append(out, pr)
		}
	}
	methods := append(append([]string{}, p.Methods...), "DELETE", "OPTIONS")
	for _, raw := range p.Patterns {
		pat, err := ref.Parse(raw, ref.NoLimits)
		if err != nil {
			continue
		}
		n := len(pat.Names)
		vals := make([]string, n)
		var rec func(i int)
		rec = func(i int) {
			if i == n {
				h, pa := pat.Substitute(vals)
				hosts := []string{h}
				if h == "" {
					hosts = []string{"", "a.b"}
				} else {
					hosts = append(hosts, h+":80", "x."+h)
				}
				variants := []string{pa, pa + "/", strings.TrimSuffix(pa, "/"), pa + "/a", pa + "b"}
				for _, hh := range hosts {
					for _, v := range variants {
						if v == "" {
							continue
						}
						for _, m := range methods {
							add(Probe{m, hh, v})
						}
					}
				}
				return
			}
			choices := []string{"a", "ab"}
			// is wildcard i a catch-all?
			k := 0
			for _, t := range append(append([]ref.Token{}, pat.HostToks...), pat.PathToks...) {
				if t.Kind == ref.Static {
					continue
				}
				if k == i && t.Kind == ref.CatchAll {
					choices = append(choices, "a/b")
				}
				k++
			}
			for _, c := range choices {
				vals[i] = c
				rec(i + 1)
			}
		}
		rec(0)
	}
	return out
}

var profiles = [][]fox.GlobalOption{
	nil,
	{fox.WithNoMethod(true), fox.WithAutoOptions(true), fox.WithIgnoreTrailingSlash(true)},
	{fox.WithRedirectTrailingSlash(true), fox.WithNoMethod(true)},
}

func profileName(i int) string {
	return []string{"default", "405+auto-OPTIONS+ignore-slash", "redirect-slash+405"}[i]
}

// observe routes all probes through f and renders the answers.
func observe(f *fox.Router, probes []Probe) []string {
	out := make([]string, len(probes))
	w := fx.NewRW()
	for i, pr := range probes {
		r, tsr := f.Reverse(pr.Method, pr.Host, pr.Path)
		req := fx.Req(pr.Method, pr.Host, pr.Path)
		lr, cc, ltsr := f.Lookup(fx.WrapRW(fx.NewRW()), req)
		params := ""
		if cc != nil {
			for p := range cc.Params() {
				params += p.Key + "=" + p.Value + ","
			}
			cc.Close()
		}
		w.Reset()
		f.ServeHTTP(w, req)
		allow := strings.Split(w.H.Get("Allow"), ", ")
		sort.Strings(allow)
		out[i] = fmt.Sprintf("reverse=(%s#%d,%v) lookup=(%s#%d,%v,[%s]) serve=(%d v=%s loc=%q allow=%s)",
			pat(r), fx.RouteVer(r), tsr, pat(lr), fx.RouteVer(lr), ltsr, params, w.Code, w.H.Get("V"), w.H.Get("Location"), strings.Join(allow, "+"))
	}
	return out
}

func pat(r *fox.Route) string {
	if r == nil {
		return "-"
	}
	return r.Pattern()
}

// canonical builds a fresh router holding exactly the model's routes, inserted in the given order.
func canonical(m hist.Model, order []hist.Key, opts []fox.GlobalOption) *fox.Router {
	f, err := fox.New(opts...)
	if err != nil {
		panic(err)
	}
	for _, k := range order {
		v := m[k]
		if _, err := f.Handle(k.Method, k.Pattern, fx.VerHandler(v), fx.WithVer(v)); err != nil {
			panic(fmt.Sprintf("canonical insert %v: %v", k, err))
		}
	}
	return f
}

func sortedKeys(m hist.Model) []hist.Key {
	ks := make([]hist.Key, 0, len(m))
	for k := range m {
		ks = append(ks, k)
	}
	sort.Slice(ks, func(i, j int) bool {
		if ks[i].Method != ks[j].Method {
			return ks[i].Method < ks[j].Method
		}
		return ks[i].Pattern < ks[j].Pattern
	})
	return ks
}

// Case is replayable: a history, or an insertion order, compared with the canonical router.
type Case struct {
	Pool     string         `json:"pool"`
	Quick    bool           `json:"quick"`
	Body     *c02.Case      `json:"body,omitempty"`
	Path     []hist.Op      `json:"path,omitempty"`
	Order    []hist.Key     `json:"order,omitempty"`
	Versions map[string]int `json:"versions,omitempty"`
	Profile  int            `json:"profile"`
	OptOps   []optOp        `json:"opt_ops,omitempty"`
}

func poolByName(name string, quick bool) *hist.Pool {
	if name == "siblings" {
		return c02.SiblingPool()
	}
	if name == "methods" {
		return c02.MethodPool()
	}
	if name == "punct" {
		return c02.PunctPool()
	}
	if name == "slashchild" {
		return c02.SlashChildPool()
	}
	if name == "nested" {
		return c02.NestPool()
	}
	if name == "hosts" {
		return c02.HostPool()
	}
	if name == "infix2" {
		return c02.Infix2Pool()
	}
	return c02.PoolFor(quick)
}

func diff(a, b []string, probes []Probe) string {
	for i := range a {
		if a[i] != b[i] {
			return fmt.Sprintf("probe %s %s%s:\n      history router:   %s\n      canonical router: %s", probes[i].Method, probes[i].Host, probes[i].Path, a[i], b[i])
		}
	}
	return ""
}

func compareHistory(p *hist.Pool, probes []Probe, path []hist.Op, prof int) string {
	m := hist.ModelOf(path)
	h := hist.Replay(path, profiles[prof]...)
	c := canonical(m, sortedKeys(m), profiles[prof])
	if d := diff(observe(h, probes), observe(c, probes), probes); d != "" {
		parts := make([]string, len(path))
		for i, o := range path {
			parts[i] = o.String()
		}
		return fmt.Sprintf("two routers holding %s route differently (profile %s): %s\n    history: %s\n    history tree:\n%s    canonical tree:\n%s", m, profileName(prof), d, strings.Join(parts, " ; "), indent(fox.VerifShape(h)), indent(fox.VerifShape(c)))
	}
	return ""
}

func indent(s string) string {
	return "      " + strings.ReplaceAll(strings.TrimRight(s, "\n"), "\n", "\n      ") + "\n"
}

func permutations(ks []hist.Key, fn func([]hist.Key)) {
	var rec func(i int)
	rec = func(i int) {
		if i == len(ks) {
			fn(ks)
			return
		}
		for j := i; j < len(ks); j++ {
			ks[i], ks[j] = ks[j], ks[i]
			rec(i + 1)
			ks[i], ks[j] = ks[j], ks[i]
		}
	}
	rec(0)
}

// drain runs body (a loop over a work channel) and reports whether it ended normally. A panic raised while one
// item is processed - the implementation rejecting or mishandling a registered set in some order, for instance -
// is recorded as a violation, and the caller starts body again to go on with the remaining items.
func drain(mu *sync.Mutex, r *mc.Result, pool string, body func()) (done bool) {
	defer func() {
		if pv := recover(); pv != nil {
			mu.Lock()
			r.Violate("histories", "history-dependent", fmt.Sprintf("panic while a router for a registered set was built or observed (pool %s): %v\n%s", pool, pv, mc.NormStack(string(debug.Stack()), 12)), Case{Pool: pool})
			mu.Unlock()
		}
	}()
	body()
	return true
}

func runPool(c *mc.Ctx, r *mc.Result, name string, p *hist.Pool, maxLive, permMax, maxStates int) {
	fullCompare := 12000
	if c.Quick() {
		fullCompare = 4000
	}
	ops := p.Ops(false)
	probes := probesFor(p)
	r.Bounds["graph."+name] = fmt.Sprintf("BFS over methods %v patterns %v (%d ops), states with <=%d routes expanded; %d probes x 3 option profiles; all insertion permutations of sets <=%d", p.Methods, p.Patterns, len(ops), maxLive, len(probes), permMax)
	g, _ := hist.BFS(p, ops, maxLive, maxStates, runtime.NumCPU(), c.Expired, func(from *hist.State, op hist.Op) (*hist.State, []hist.Violation) {
		f := hist.Replay(from.Path)
		hist.Apply(f, op, nil)
		full := append(append([]hist.Op{}, from.Path...), op)
		m := from.Model
		if op.Mode != hist.TxnAbort {
			_, m = hist.ModelApply(from.Model, op)
		}
		return &hist.State{Path: full, Model: m, Shape: fox.VerifShape(f), Depth: from.Depth + 1}, nil
	})
	if g.Truncated {
		// more states than any correct tree can have (the cap is several times the expected count): the
		// discovered part is still compared below, so a history-dependent state is reported, not hidden
		r.NotExhaustive = append(r.NotExhaustive, fmt.Sprintf("graph %s: BFS stopped at %d states (cap %d / time guard)", name, len(g.States), maxStates))
	}
	compareDeadline := time.Now().Add(4 * time.Minute)
	r.States += int64(len(g.States))
	r.Transitions += g.Transitions
	multi := 0
	for _, l := range g.ByModel {
		// distinct tree dumps (a state and its after-managed-commit twin share one)
		shapes := map[string]bool{}
		for _, i := range l {
			shapes[g.States[i].Shape] = true
		}
		if len(shapes) > 1 {
			multi++
		}
	}
	r.Count(name+".model_states", int64(len(g.ByModel)))
	r.Count(name+".model_states_reached_with_several_tree_shapes", int64(multi))
	// every implementation state versus the canonical router, under every profile
	var mu sync.Mutex
	var wg sync.WaitGroup
	ch := make(chan int, 256)
	for w := 0; w < runtime.NumCPU(); w++ {
		wg.Add(1)
		go func() {
			defer wg.Done()
			for !drain(&mu, r, name, func() {
				for i := range ch {
					st := g.States[i]
					// beyond the first fullCompare states (BFS order) the probes are only run when the tree dump
					// differs from the canonical router's: equal dumps route identically (merging argument)
					if i >= fullCompare {
						c0 := canonical(st.Model, sortedKeys(st.Model), nil)
						if hist.ShapeDigest(c0) == st.Shape {
							mu.Lock()
							r.Count(name+".states_equal_to_canonical_dump", 1)
							mu.Unlock()
							continue
						}
					}
					for prof := range profiles {
						if time.Now().After(compareDeadline) {
							continue
						}
						msg := compareHistory(p, probes, st.Path, prof)
						mu.Lock()
						r.Evaluations += int64(len(probes))
						r.TracesValidated++
						if len(st.Path) > len(st.Model) {
							r.DistinctNontrivial++ // the history contains more than plain insertions
						}
						if msg != "" {
							r.Violate("histories", "history-dependent", msg, Case{Pool: name, Quick: c.Quick(), Path: st.Path, Profile: prof})
						}
						mu.Unlock()
					}
				}
			}) {
			}
		}()
	}
	for i := range g.States {
		ch <- i
	}
	close(ch)
	wg.Wait()
	// all insertion orders of small sets
	models := make([]string, 0, len(g.ByModel))
	for k := range g.ByModel {
		models = append(models, k)
	}
	sort.Strings(models)
	ch2 := make(chan hist.Model, 256)
	for w := 0; w < runtime.NumCPU(); w++ {
		wg.Add(1)
		go func() {
			defer wg.Done()
			for !drain(&mu, r, name, func() {
				for m := range ch2 {
					base := observe(canonical(m, sortedKeys(m), nil), probes)
					ks := sortedKeys(m)
					permutations(ks, func(order []hist.Key) {
						f := canonical(m, order, nil)
						d := diff(observe(f, probes), base, probes)
						mu.Lock()
						r.Evaluations += int64(len(probes))
						r.Count(name+".permutations", 1)
						r.DistinctNontrivial++
						if d != "" {
							vers := map[string]int{}
							for k, v := range m {
								vers[k.Method+" "+k.Pattern] = v
							}
							r.Violate("permutations", "order-dependent", fmt.Sprintf("insertion order %v routes differently from sorted insertion: %s", order, d), Case{Pool: name, Quick: c.Quick(), Order: append([]hist.Key{}, order...), Versions: vers})
						}
						mu.Unlock()
					})
				}
			}) {
			}
		}()
	}
	for _, ms := range models {
		m := g.States[g.ByModel[ms][0]].Model
		if len(m) >= 2 && len(m) <= permMax {
			ch2 <- m
		}
	}
	close(ch2)
	wg.Wait()
	if time.Now().After(compareDeadline) {
		r.NotExhaustive = append(r.NotExhaustive, "graph "+name+": comparison stopped by the time guard")
	}
	if len(g.States) > 2 {
		s := g.States[len(g.States)-1]
		r.Sample(map[string]any{"pool": name, "history": fmt.Sprint(s.Path), "registered": s.Model.String(), "probes": len(probes)})
	}
}

// compareBody: the router left by seed + one multi-operation write transaction (committed or
// aborted) against the canonical router of the set that must be registered afterwards.
func compareBody(p *hist.Pool, probes []Probe, bc c02.Case, force bool) string {
	h, m := c02.RunBody(bc)
	c0 := canonical(m, sortedKeys(m), nil)
	if !force && hist.ShapeDigest(h) == hist.ShapeDigest(c0) {
		return "" // same registered set and same tree dump: same behaviour (merging argument)
	}
	for prof := range profiles {
		h, m := c02.RunBody(bc, profiles[prof]...)
		c1 := canonical(m, sortedKeys(m), profiles[prof])
		if d := diff(observe(h, probes), observe(c1, probes), probes); d != "" {
			end := "Abort"
			if bc.Commit {
				end = "Commit"
			}
			if bc.Read != "" {
				end = "Txn." + bc.Read + " then " + end
			}
			return fmt.Sprintf("two routers holding %s route differently (profile %s): %s\n    history: %v ; Txn{%v} %s\n    history tree:\n%s    canonical tree:\n%s", m, profileName(prof), d, bc.Path, bc.Body, end, indent(fox.VerifShape(h)), indent(fox.VerifShape(c1)))
		}
	}
	return ""
}

func runBodies(c *mc.Ctx, r *mc.Result, name string, p *hist.Pool, seedMax, bodyLen int) {
	probes := probesFor(p)
	var mu sync.Mutex
	ns, na, stopped := c02.ForEachBody(c, name, p, seedMax, bodyLen, func(bc c02.Case) {
		msg := func() (msg string) {
			// a panic of the implementation (or of the tree dump on a malformed tree) is a finding, not a crash
			defer func() {
				if pv := recover(); pv != nil {
					msg = fmt.Sprintf("panic while running or observing the transaction body: %v\n%s", pv, mc.NormStack(string(debug.Stack()), 12))
				}
			}()
			return compareBody(p, probes, bc, false)
		}()
		mu.Lock()
		r.Evaluations++
		r.Transitions += int64(len(bc.Body))
		r.TracesValidated++
		r.DistinctNontrivial++
		if msg != "" {
			bcc := bc
			r.Violate("histories", "history-dependent", msg, Case{Pool: name, Quick: c.Quick(), Body: &bcc})
		}
		mu.Unlock()
	})
	r.Bounds[fmt.Sprintf("bodies.%s.%d", name, bodyLen)] = fmt.Sprintf("%d seeds (subsets <=%d) x all bodies of %d operations over %d operations inside one write transaction x {Abort, Commit, Txn.Iter then Commit, Txn.Snapshot then Commit}: tree dump compared with the canonical router's, probes on any difference", ns, seedMax, bodyLen, na)
	if stopped {
		r.NotExhaustive = append(r.NotExhaustive, "bodies "+name+" stopped by the time guard")
	}
}

// runFanOrders: a node with more than 50 edges that also has a parameter and a catch-all edge, with
// two routes through each wildcard edge; the same set registered statics-first, wildcards-first,
// interleaved and in sorted order must route alike (the edge lookup switches to binary search above
// 50 children).
func runFanOrders(c *mc.Ctx, r *mc.Result) {
	const letters = "0123456789ABCDEFGHIJKLMNOPQRSTUVWXYZabcdefghijklmnopqrstuvwxyz"
	r.Bounds["fan-orders"] = "49/51/52 static siblings + 2 routes through a parameter edge + 2 through a catch-all edge, under '/' and '/{p}/', in 4 registration orders x 3 option profiles"
	for _, prefix := range []string{"/", "/{p}/"} {
		for _, n := range []int{49, 51, 52} {
			var statics, wild []hist.Key
			for i := 0; i < n; i++ {
				statics = append(statics, hist.Key{Method: "GET", Pattern: prefix + string(letters[i])})
			}
			for _, w := range []string{"{q}/aa", "*{w}/aa", "{q}/bb", "*{w}/bb"} {
				wild = append(wild, hist.Key{Method: "GET", Pattern: prefix + w})
			}
			m := hist.Model{}
			for _, k := range append(append([]hist.Key{}, statics...), wild...) {
				m[k] = 1
			}
			reqPrefix := strings.ReplaceAll(prefix, "{p}", "v")
			var probes []Probe
			for _, me := range []string{"GET", "POST", "OPTIONS"} {
				for _, pa := range []string{"0", string(letters[n-1]), string(letters[n]), "zz/aa", "zz/bb", "zz/cc", "zz/y/aa", "zz/y/bb", "zz", "0/aa"} {
					probes = append(probes, Probe{me, "", reqPrefix + pa})
				}
			}
			inter := append([]hist.Key{}, statics[:n/2]...)
			inter = append(inter, wild[:2]...)
			inter = append(inter, statics[n/2:]...)
			inter = append(inter, wild[2:]...)
			orders := map[string][]hist.Key{
				"statics first":   append(append([]hist.Key{}, statics...), wild...),
				"wildcards first": append(append([]hist.Key{}, wild...), statics...),
				"interleaved":     inter,
			}
			for prof := range profiles {
				ref := observe(canonical(m, sortedKeys(m), profiles[prof]), probes)
				for _, name := range []string{"statics first", "wildcards first", "interleaved"} {
					var f *fox.Router
					var pv any
					func() {
						defer func() { pv = recover() }()
						f = canonical(m, orders[name], profiles[prof])
					}()
					r.Evaluations += int64(len(probes))
					r.States++
					r.DistinctNontrivial++
					if pv != nil {
						r.Violate("histories", "history-dependent", fmt.Sprintf("registering %d siblings + 4 wildcard routes under %q in the order %q fails: %v", n, prefix, name, pv), Case{Pool: "fan-orders"})
						continue
					}
					if d := diff(observe(f, probes), ref, probes); d != "" {
						r.Violate("histories", "history-dependent", fmt.Sprintf("two routers holding the same %d siblings + 4 wildcard routes under %q route differently (profile %s, registration order %q vs sorted): %s", n, prefix, profileName(prof), name, d), Case{Pool: "fan-orders"})
					}
				}
			}
		}
	}
}

func run(c *mc.Ctx, r *mc.Result) {
	// independent sub-runs, each with its own result, run concurrently and merged in a fixed order
	var jobs []func(r *mc.Result)
	add := func(f func(r *mc.Result)) { jobs = append(jobs, f) }
	if c.Quick() {
		add(func(r *mc.Result) { runPool(c, r, "prefixes", c02.PoolFor(true), 2, 3, 40000) })
		add(func(r *mc.Result) { runPool(c, r, "siblings", c02.SiblingPool(), 4, 4, 8000) })
		add(func(r *mc.Result) { runPool(c, r, "punct", c02.PunctPool(), 4, 4, 8000) })
		add(func(r *mc.Result) { runPool(c, r, "slashchild", c02.SlashChildPool(), 4, 4, 8000) })
		add(func(r *mc.Result) { runPool(c, r, "methods", c02.MethodPool(), 3, 3, 20000) })
		add(func(r *mc.Result) { runPool(c, r, "nested", c02.NestPool(), 4, 4, 20000) })
		add(func(r *mc.Result) { runPool(c, r, "hosts", c02.HostPool(), 3, 3, 20000) })
		add(func(r *mc.Result) { runPool(c, r, "infix2", c02.Infix2Pool(), 3, 3, 20000) })
		add(func(r *mc.Result) { runBodies(c, r, "prefixes", c02.PoolFor(true), 2, 2) })
		add(func(r *mc.Result) { runBodies(c, r, "siblings", c02.SiblingPool(), 3, 2) })
		add(func(r *mc.Result) { runBodies(c, r, "nested", c02.NestPool(), 2, 2) })
		add(func(r *mc.Result) { runBodies(c, r, "hosts", c02.HostPool(), 2, 2) })
		add(func(r *mc.Result) { runBodies(c, r, "methods", c02.MethodPool(), 2, 2) })
		add(func(r *mc.Result) { runOptionHistories(c, r) })
	} else {
		add(func(r *mc.Result) { runPool(c, r, "prefixes", c02.PoolFor(true), 3, 3, 400000) })
		add(func(r *mc.Result) { runPool(c, r, "methods", c02.MethodPool(), 4, 4, 100000) })
		add(func(r *mc.Result) { runPool(c, r, "siblings", c02.SiblingPool(), 6, 5, 60000) })
		add(func(r *mc.Result) { runPool(c, r, "punct", c02.PunctPool(), 6, 5, 60000) })
		add(func(r *mc.Result) { runPool(c, r, "slashchild", c02.SlashChildPool(), 6, 5, 60000) })
		add(func(r *mc.Result) { runPool(c, r, "nested", c02.NestPool(), 6, 5, 60000) })
		add(func(r *mc.Result) { runPool(c, r, "hosts", c02.HostPool(), 5, 4, 60000) })
		add(func(r *mc.Result) { runPool(c, r, "infix2", c02.Infix2Pool(), 5, 4, 60000) })
		add(func(r *mc.Result) { runBodies(c, r, "prefixes", c02.PoolFor(true), 3, 2) })
		add(func(r *mc.Result) { runBodies(c, r, "siblings", c02.SiblingPool(), 4, 2) })
		add(func(r *mc.Result) { runBodies(c, r, "nested", c02.NestPool(), 3, 2) })
		add(func(r *mc.Result) { runBodies(c, r, "hosts", c02.HostPool(), 3, 2) })
		add(func(r *mc.Result) { runBodies(c, r, "methods", c02.MethodPool(), 3, 2) })
		add(func(r *mc.Result) { runOptionHistories(c, r) })
		add(func(r *mc.Result) { runBodies(c, r, "nested", c02.NestPool(), 2, 3) })
		add(func(r *mc.Result) { runBodies(c, r, "siblings", c02.SiblingPool(), 2, 3) })
	}
	add(func(r *mc.Result) { runFanOrders(c, r) })
	results := make([]*mc.Result, len(jobs))
	var wg sync.WaitGroup
	sem := make(chan struct{}, 6)
	for i, j := range jobs {
		wg.Add(1)
		go func() {
			defer wg.Done()
			sem <- struct{}{}
			defer func() { <-sem }()
			rr := mc.NewResult()
			j(rr)
			results[i] = rr
		}()
	}
	wg.Wait()
	for _, rr := range results {
		r.Merge(rr)
	}
}

// option histories: routes whose registered set includes their trailing-slash option. Every sequence of <=3
// operations over {Handle, Update with {no option, ignore, redirect}, Delete} x 3 patterns, then a fresh router
// holding the same (pattern, option) pairs: both must route alike under every profile. (Update drops the options it
// is not given again: the route falls back to the router-wide mode.)
type optOp struct {
	Kind    string `json:"k"` // handle | update | delete
	Pattern string `json:"p"`
	Opt     int    `json:"o"` // 0 none, 1 ignore, 2 redirect
}

func (o optOp) String() string {
	return fmt.Sprintf("%s(%s, %s)", o.Kind, o.Pattern, []string{"no option", "ignore", "redirect"}[o.Opt])
}

var optPatterns = []string{"/a", "/a/", "/a/{x}/"}

func optRouteOpts(o int) []fox.RouteOption {
	switch o {
	case 1:
		return []fox.RouteOption{fox.WithIgnoreTrailingSlash(true)}
	case 2:
		return []fox.RouteOption{fox.WithRedirectTrailingSlash(true)}
	}
	return nil
}

func compareOptHistory(ops []optOp, prof int) string {
	h, err := fox.New(profiles[prof]...)
	if err != nil {
		panic(err)
	}
	model := map[string]int{}
	for _, o := range ops {
		switch o.Kind {
		case "handle":
			if _, err := h.Handle("GET", o.Pattern, fx.VerHandler(1), optRouteOpts(o.Opt)...); err == nil {
				model[o.Pattern] = o.Opt
			}
		case "update":
			if _, err := h.Update("GET", o.Pattern, fx.VerHandler(1), optRouteOpts(o.Opt)...); err == nil {
				model[o.Pattern] = o.Opt
			}
		case "delete":
			if _, err := h.Delete("GET", o.Pattern); err == nil {
				delete(model, o.Pattern)
			}
		}
	}
	c, _ := fox.New(profiles[prof]...)
	for _, p := range optPatterns {
		if o, ok := model[p]; ok {
			if _, err := c.Handle("GET", p, fx.VerHandler(1), optRouteOpts(o)...); err != nil {
				panic(err)
			}
		}
	}
	var probes []Probe
	for _, m := range []string{"GET", "POST", "OPTIONS"} {
		for _, p := range []string{"/a", "/a/", "/a/v", "/a/v/", "/b"} {
			probes = append(probes, Probe{m, "", p})
		}
	}
	if d := diff(observe(h, probes), observe(c, probes), probes); d != "" {
		return fmt.Sprintf("two routers holding the same routes with the same trailing-slash options %v route differently (profile %s): %s\n    history: %v", model, profileName(prof), d, ops)
	}
	return ""
}

func runOptionHistories(c *mc.Ctx, r *mc.Result) {
	var alpha []optOp
	for _, p := range optPatterns {
		for o := 0; o < 3; o++ {
			alpha = append(alpha, optOp{"handle", p, o}, optOp{"update", p, o})
		}
		alpha = append(alpha, optOp{"delete", p, 0})
	}
	r.Bounds["option-histories"] = fmt.Sprintf("every sequence of <=3 operations over %d (Handle/Update with no/ignore/redirect option, Delete on %v) x 3 profiles, against a fresh router holding the same (pattern, option) pairs", len(alpha), optPatterns)
	var rec func(cur []optOp)
	rec = func(cur []optOp) {
		if len(cur) > 0 {
			for prof := range profiles {
				r.Evaluations++
				r.TracesValidated++
				if len(cur) > 1 {
					r.DistinctNontrivial++
				}
				if msg := compareOptHistory(cur, prof); msg != "" {
					r.Violate("histories", "history-dependent", msg, Case{Pool: "option-histories", OptOps: append([]optOp{}, cur...), Profile: prof})
				}
			}
		}
		if len(cur) == 3 {
			return
		}
		for _, o := range alpha {
			rec(append(cur, o))
		}
	}
	rec(nil)
}

func replay(c *mc.Ctx, raw json.RawMessage) string {
	var cs Case
	if err := json.Unmarshal(raw, &cs); err != nil {
		return "bad case"
	}
	if cs.Pool == "option-histories" {
		return compareOptHistory(cs.OptOps, cs.Profile)
	}
	if cs.Pool == "fan-orders" {
		rr := mc.NewResult()
		runFanOrders(c, rr)
		if len(rr.Violations) > 0 {
			return rr.Violations[0].Msg
		}
		return ""
	}
	p := poolByName(cs.Pool, cs.Quick)
	probes := probesFor(p)
	if cs.Body != nil {
		return compareBody(p, probes, *cs.Body, true)
	}
	if cs.Path != nil {
		return compareHistory(p, probes, cs.Path, cs.Profile)
	}
	m := hist.Model{}
	for _, k := range cs.Order {
		m[k] = cs.Versions[k.Method+" "+k.Pattern]
	}
	d := diff(observe(canonical(m, cs.Order, nil), probes), observe(canonical(m, sortedKeys(m), nil), probes), probes)
	return d
}

func init() {
	mc.Register(&mc.Check{
		ID:     "C07",
		Level:  "model_checking",
		Serial: true,
		Rule: "explicit-state BFS over registration histories (Handle/HandleRoute/Update/UpdateRoute/Delete/Truncate, direct, committed and aborted transactions); every reachable implementation state (registered set, tree dump) is compared with a fresh router filled in sorted order on probes derived from every pool pattern under 3 option profiles, and every insertion permutation of small sets is compared likewise; " +
			"distinct_nontrivial = states whose shortest history contains more than plain insertions + permutations",
		Assumptions: []string{
			"state merging argument of C02 (same registered set and same tree dump => same future behaviour), so one representative history per (set, dump) suffices",
			"the Allow header is compared as a set",
		},
		Parts: []mc.Part{{Name: "histories", Run: run, Replay: replay}, {Name: "permutations", Run: func(*mc.Ctx, *mc.Result) {}, Replay: replay}},
	})
}
