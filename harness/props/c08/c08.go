// Package c08: trailing-slash actions happen exactly when a slash-adjusted route exists.
package c08

import (
	"encoding/json"
	"fmt"
	"net/url"
	"strings"

	"github.com/tigerwill90/fox"

	"verifharness/mc"
	"verifharness/ref"
	"verifharness/rsx"
)

// Case is a replayable C08 case.
type Case struct {
	Set  []rsx.RouteSpec `json:"set"`
	Prof rsx.Profile     `json:"prof"`
	Req  rsx.Req         `json:"req"`
	// Extra, when set, is registered under GET after Set and deleted again before the request
	Extra string `json:"extra,omitempty"`
	// ViaUpdate: the routes reached their options through Update
	ViaUpdate bool `json:"via_update,omitempty"`
}

var methods = []string{"GET", "POST", "CONNECT"}

// expand registers every (pattern, option) of the set under all three request methods.
func expand(set []rsx.RouteSpec) []rsx.RouteSpec {
	out := make([]rsx.RouteSpec, 0, len(set)*len(methods))
	for _, m := range methods {
		for _, s := range set {
			out = append(out, rsx.RouteSpec{Method: m, Pattern: s.Pattern, Slash: s.Slash})
		}
	}
	return out
}

func adjust(p string) string {
	if strings.HasSuffix(p, "/") {
		return p[:len(p)-1]
	}
	return p + "/"
}

// ShapePCS tags violations whose case has the shape of known finding C08-pcs: the reference
// recommends removing the trailing slash to reach route R, and the same method also has a route
// R*{...}... (a catch-all glued to R's last segment), into which the walk descends and gives up.
const ShapePCS = "[shape:prefixed-catch-all-sibling-of-remove-slash-target] "

func eval(e *rsx.Env, rq rsx.Req, lookups bool) (bool, bool, string, string) {
	abst, nontriv, class, msg := evalRaw(e, rq, lookups)
	if class != "" && strings.HasSuffix(rq.MatchPath(), "/") {
		want, _ := e.RefLookup(rq.Method, rq.Host, rq.MatchPath())
		if want.Tsr {
			for _, s := range e.Set {
				if s.Method == rq.Method && strings.HasPrefix(s.Pattern, want.Route.Pat.Raw+"*{") {
					msg = ShapePCS + msg
					class += "@pcs"
					break
				}
			}
		}
	}
	return abst, nontriv, class, msg
}

// evalRaw compares all entry points with the reference for one request.
// returns (abstained, nontrivial, class, msg)
func evalRaw(e *rsx.Env, rq rsx.Req, lookups bool) (bool, bool, string, string) {
	mp := rq.MatchPath()
	want, decided := e.RefLookup(rq.Method, rq.Host, mp)
	var o rsx.Obs
	if lookups {
		o = e.Observe(rq)
	} else {
		func() {
			defer func() {
				if p := recover(); p != nil {
					o.Panic = fmt.Sprint(p)
				}
			}()
			e.Serve(rq, &o)
		}()
	}
	if o.Panic != "" {
		return false, true, "panic", "panic: " + o.Panic
	}
	if o.Cap.Reentry != "" {
		return false, true, "context-changed-by-reentry", fmt.Sprintf("%s: set %s request %s (handler %d)", o.Cap.Reentry, rsx.SetString(e.Set), rq, o.Cap.Handler)
	}
	if lookups && e.Views != nil {
		// a read-only transaction and a write transaction holding the same routes uncommitted must
		// answer like the router (route, tsr flag, parameters of the adjusted match)
		if d := e.Views.Disagree(rq, &o); d != "" {
			return false, true, "txn-disagree", fmt.Sprintf("%s: set %s request %s\n    router: %s", d, rsx.SetString(e.Set), rq, o)
		}
	}
	nontrivial := want.Tsr || (want.Route == nil && e.Contenders(rq.Method, rq.Host, adjust(mp)) > 0)
	if !decided || e.GrayPrefixedCatchAll(o.LkID, o.LkParams) || e.GrayPrefixedCatchAll(o.Cap.Handler, o.Cap.Params) {
		return true, nontrivial, "", ""
	}
	hdr := func() string {
		w := "no route"
		if want.Route != nil {
			w = fmt.Sprintf("route %d %s [%s] tsr=%v", want.Route.ID, want.Route.Pat.Raw, rsx.KVString(want.Params), want.Tsr)
		}
		return fmt.Sprintf("set %s request %s\n    reference: %s\n    observed:  %s", rsx.SetString(e.Set), rq, w, o)
	}
	wantID := 0
	if want.Route != nil {
		wantID = want.Route.ID
	}
	if lookups {
		if o.RevID != o.LkID || o.RevTsr != o.LkTsr {
			return false, nontrivial, "entrypoints-disagree", "Reverse and Lookup disagree: " + hdr()
		}
		if o.RevID != wantID || o.RevTsr != want.Tsr {
			cls := "tsr-wrong-route"
			switch {
			case want.Tsr && o.RevID == 0:
				cls = "tsr-missed"
			case !want.Tsr && wantID == 0 && o.RevTsr:
				cls = "tsr-spurious"
			case !want.Tsr && wantID != 0 && o.RevTsr:
				cls = "tsr-instead-of-direct"
			case want.Tsr && !o.RevTsr:
				cls = "direct-instead-of-tsr"
			case !want.Tsr && !o.RevTsr:
				cls = "direct-wrong-route"
			}
			return false, nontrivial, cls, "Reverse/Lookup result differs from the reference: " + hdr()
		}
		if wantID != 0 && !rsx.SameKV(o.LkParams, want.Params) {
			cls := "direct-wrong-params"
			if want.Tsr {
				cls = "tsr-wrong-params"
			}
			return false, nontrivial, cls, "Lookup parameters differ from the reference: " + hdr()
		}
		wantIt := 0
		if wantID != 0 && (!want.Tsr || want.Route.Ignore || want.Route.Redir) {
			wantIt = wantID
		}
		if o.ItID != wantIt {
			return false, nontrivial, "iter-reverse", fmt.Sprintf("Iter.Reverse yields %d, want %d: %s", o.ItID, wantIt, hdr())
		}
	}
	// ServeHTTP
	type exp struct {
		handler int
		status  int
		params  []ref.KV
	}
	x := exp{handler: rsx.HNoRoute, status: 404}
	switch {
	case wantID != 0 && !want.Tsr:
		x = exp{wantID, 200, want.Params}
	case want.Tsr && rq.Method != "CONNECT" && rq.Path != "/":
		if want.Route.Ignore {
			x = exp{wantID, 200, want.Params}
		} else if want.Route.Redir && mp == ref.CleanPath(mp) {
			st := 308
			if rq.Method == "GET" {
				st = 301
			}
			x = exp{rsx.HRedirect, st, nil}
		}
	}
	if (o.Cap.Handler != x.handler || o.Status != x.status) && !lookups {
		// the request was only served: look the route up to see whether the gray zone is involved
		var ol rsx.Obs
		rsx.ObserveLookups(e.F, rq, &ol)
		if e.GrayPrefixedCatchAll(ol.LkID, ol.LkParams) {
			return true, nontrivial, "", ""
		}
	}
	if o.Cap.Handler != x.handler || o.Status != x.status || o.Cap.Runs != 1 {
		cls := "serve-wrong-outcome"
		if x.handler == rsx.HNoRoute && o.Cap.Handler != rsx.HNoRoute {
			cls = "serve-spurious-action"
		} else if x.handler != rsx.HNoRoute && o.Cap.Handler == rsx.HNoRoute {
			cls = "serve-missed-action"
		}
		return false, nontrivial, cls, fmt.Sprintf("ServeHTTP: want handler %d status %d, got handler %d status %d (runs %d): %s", x.handler, x.status, o.Cap.Handler, o.Status, o.Cap.Runs, hdr())
	}
	if x.handler > 0 {
		if !rsx.SameKV(o.Cap.Params, x.params) {
			return false, nontrivial, "serve-wrong-params", "ServeHTTP Context.Params differ from the reference: " + hdr()
		}
		if o.Cap.Pattern != want.Route.Pat.Raw || o.Cap.RouteNil || o.Cap.Scope != fox.RouteHandler {
			return false, nontrivial, "serve-wrong-context", "route handler context does not expose the selected route: " + hdr()
		}
	}
	if x.handler == rsx.HRedirect {
		if !o.Cap.RedirRouteNil || o.Cap.RedirPattern != "" || len(o.Cap.RedirParams) != 0 || o.Cap.RedirScope != fox.RedirectHandler {
			return false, nontrivial, "redirect-context", fmt.Sprintf("redirect handler context exposes route/pattern/params or wrong scope (routeNil=%v pattern=%q params=[%s] scope=%d): %s", o.Cap.RedirRouteNil, o.Cap.RedirPattern, rsx.KVString(o.Cap.RedirParams), o.Cap.RedirScope, hdr())
		}
		if msg := checkLocation(rq, o.Location); msg != "" {
			return false, nontrivial, "redirect-location", msg + ": " + hdr()
		}
	}
	if x.handler == rsx.HNoRoute {
		if !o.Cap.RouteNil || o.Cap.Pattern != "" || len(o.Cap.Params) != 0 || o.Cap.Scope != fox.NoRouteHandler {
			return false, nontrivial, "noroute-context", "no-route handler context exposes route/pattern/params or wrong scope: " + hdr()
		}
	}
	return false, nontrivial, "", ""
}

// checkLocation resolves the Location header against the request URL (RFC 3986) and requires the
// slash-adjusted path and the unchanged query.
func checkLocation(rq rsx.Req, loc string) string {
	if loc == "" {
		return "redirect without Location"
	}
	base := &url.URL{Scheme: "http", Host: "example.test", Path: rq.Path, RawPath: rq.Raw, RawQuery: rq.Query}
	l, err := url.Parse(loc)
	if err != nil {
		return fmt.Sprintf("Location %q does not parse: %v", loc, err)
	}
	res := base.ResolveReference(l)
	if res.Scheme != base.Scheme || res.Host != base.Host {
		return fmt.Sprintf("Location %q resolves to another origin %s://%s", loc, res.Scheme, res.Host)
	}
	// the query is kept: identical, or identical once percent-decoded (non-ASCII bytes must be
	// escaped in a header value)
	gq, err1 := url.PathUnescape(res.RawQuery)
	wq, err2 := url.PathUnescape(rq.Query)
	if res.RawQuery != rq.Query && (err1 != nil || err2 != nil || gq != wq) {
		return fmt.Sprintf("Location %q resolves to query %q, want %q", loc, res.RawQuery, rq.Query)
	}
	for i := 0; i < len(loc); i++ {
		if loc[i] >= 0x80 || loc[i] < 0x20 {
			return fmt.Sprintf("Location %q contains a byte outside printable ASCII", loc)
		}
	}
	if res.Fragment != "" {
		return fmt.Sprintf("Location %q carries a fragment %q", loc, res.Fragment)
	}
	// the slash is adjusted on the escaped form (an escaped "%2F" at the end is not a trailing slash)
	wantDecoded, err := url.PathUnescape(adjust(base.EscapedPath()))
	if err != nil {
		wantDecoded = adjust(rq.Path)
	}
	if res.Path != wantDecoded {
		return fmt.Sprintf("Location %q resolves to path %q, want %q", loc, res.Path, wantDecoded)
	}
	// segment structure: an escaped slash must stay escaped
	gotSegs := strings.Split(res.EscapedPath(), "/")
	wantSegs := strings.Split(adjust(base.EscapedPath()), "/")
	if len(gotSegs) != len(wantSegs) {
		return fmt.Sprintf("Location %q resolves to escaped path %q, want the segments of %q", loc, res.EscapedPath(), adjust(base.EscapedPath()))
	}
	for i := range gotSegs {
		g, err1 := url.PathUnescape(gotSegs[i])
		w, err2 := url.PathUnescape(wantSegs[i])
		if err1 != nil || err2 != nil || g != w {
			return fmt.Sprintf("Location %q resolves to escaped path %q, want the segments of %q", loc, res.EscapedPath(), adjust(base.EscapedPath()))
		}
	}
	return ""
}

type poolDef struct {
	name     string
	patterns []string
	paths    []string
	hosts    []string
	k        int
	opts     []int // slash options explored per pattern
	prof     rsx.Profile
	// afterDelete: every set is built with each further pool pattern registered (GET) and deleted
	// again; only those routers are evaluated
	afterDelete bool
	// methods, when set, replaces the three default request methods for this pool
	methods []string
	// viaUpdate: every route is first registered with another handler and trailing-slash option and then replaced
	// by Update (rsx.BuildViaUpdate)
	viaUpdate bool
}

func pools(quick bool) []poolDef {
	unclean := []string{"/./a", "/a/.", "/a/./", "/../a/", "/a/b/..", "/a/../", "/a/./b"}
	flatQ := append([]string{"/"}, rsx.GenPatterns([]string{"a", "{}", "*{}", "ab"}, 2, true, "")...)
	paths3 := append(rsx.GenPaths([]string{"a", "b", "ab"}, 3), unclean...)
	k := 3
	if quick {
		k = 2
	}
	ps := []poolDef{
		{name: "flat", patterns: flatQ, paths: paths3, hosts: []string{""}, k: k},
	}
	mid := rsx.GenPatterns([]string{"a", "a{}", "a*{}", "*{}"}, 2, true, "")
	ps = append(ps, poolDef{name: "mid", patterns: mid, paths: append(rsx.GenPaths([]string{"a", "ab", "aa", "b"}, 3), unclean...), hosts: []string{""}, k: k})
	var hostPats []string
	for _, h := range []string{"a.b", "{h}.b", "a.{t}"} {
		for _, p := range []string{"/", "/a", "/a/", "/{p0}", "/{p0}/", "/*{c0}", "/*{c0}/"} {
			hostPats = append(hostPats, h+p)
		}
	}
	hostPats = append(hostPats, "/", "/a", "/a/", "/{p0}", "/{p0}/", "/*{c0}", "/a/b", "/a/b/")
	ps = append(ps, poolDef{name: "host", patterns: hostPats, paths: rsx.GenPaths([]string{"a", "b"}, 2), hosts: []string{"", "a.b", "x.b", "a.b:80", "c.d"}, k: k})
	// router-wide trailing-slash modes (routes inherit them)
	ps = append(ps, poolDef{name: "flat-global-ignore", patterns: flatQ, paths: paths3, hosts: []string{""}, k: k, opts: []int{rsx.SlashNone}, prof: rsx.Profile{Slash: rsx.SlashIgnore}},
		poolDef{name: "flat-global-redirect", patterns: flatQ, paths: paths3, hosts: []string{""}, k: k, opts: []int{rsx.SlashNone}, prof: rsx.Profile{Slash: rsx.SlashRedirect}})
	// depth-3 patterns: a backtracked walk can meet a second trailing-slash candidate below a parameter
	deep := rsx.GenPatterns([]string{"a", "{}"}, 3, true, "")
	if quick {
		ps = append(ps, poolDef{name: "deep", patterns: deep, paths: rsx.GenPaths([]string{"a", "b"}, 3), hosts: []string{""}, k: 3, opts: []int{rsx.SlashNone}})
	} else {
		ps = append(ps, poolDef{name: "deep", patterns: deep, paths: rsx.GenPaths([]string{"a", "b"}, 3), hosts: []string{""}, k: 3})
	}
	// mid2: a static route, its parameter twin and a prefixed wildcard below the twin (several
	// remove-slash / add-slash candidates met while backtracking; the first one must win)
	mid2 := []string{"/a/b", "/a/b/", "/{p0}/b", "/{p0}/b/", "/{p0}/b{p1}", "/{p0}/b{p1}/", "/a/b{p1}", "/a/{p1}", "/{p0}/{p1}", "/{p0}/b*{c1}"}
	ps = append(ps, poolDef{name: "mid2", patterns: mid2, paths: rsx.GenPaths([]string{"a", "b", "bb"}, 2), hosts: []string{""}, k: 3})
	// flat pool again, every set (<=2) built with one more pattern registered and deleted (node merges)
	ps = append(ps, poolDef{name: "flat-after-delete", patterns: flatQ, paths: rsx.GenPaths([]string{"a", "b", "ab"}, 2), hosts: []string{""}, k: 2, opts: []int{rsx.SlashNone, rsx.SlashIgnore}, afterDelete: true})
	// option lists: a mode switched on and the other explicitly off, both off, one off over a router-wide mode
	optPats := []string{"/", "/a", "/a/", "/{p0}", "/{p0}/", "/a/b", "/a/b/", "/*{c0}", "/*{c0}/"}
	allOpts := []int{rsx.SlashNone, rsx.SlashIgnore, rsx.SlashRedirect, rsx.SlashIgnoreThenRedirectOff, rsx.SlashRedirectThenIgnoreOff, rsx.SlashBothOff, rsx.SlashRedirectOff, rsx.SlashIgnoreOff}
	for _, pf := range []int{rsx.SlashNone, rsx.SlashIgnore, rsx.SlashRedirect} {
		ps = append(ps, poolDef{name: fmt.Sprintf("option-lists-global%d", pf), patterns: optPats, paths: rsx.GenPaths([]string{"a", "b"}, 2), hosts: []string{""}, k: 2, opts: allOpts, prof: rsx.Profile{Slash: pf},
			methods: []string{"GET", "HEAD", "POST", "CONNECT", "FOO"}})
	}
	// routes that reached their trailing-slash option through Update
	// paths ending in a doubled slash are one extra slash away from the path ending in one slash (static and
	// parameter patterns only: whether a catch-all captures an empty segment is not decided by the statement)
	ps = append(ps, poolDef{name: "double-slash", patterns: []string{"/", "/a", "/a/", "/{p0}", "/{p0}/", "/a/b/", "/a/{p0}/", "/a/{p0}", "/ab/"},
		paths: []string{"/a//", "/a/b//", "/b//", "/ab//", "/a/", "/a", "/a/b/", "/a/b", "/a/b///", "/a//b/"}, hosts: []string{""}, k: 3})
	ps = append(ps, poolDef{name: "flat-via-update", patterns: flatQ, paths: rsx.GenPaths([]string{"a", "b", "ab"}, 2), hosts: []string{""}, k: 2, viaUpdate: true})
	if !quick {
		core := append([]string{"/"}, rsx.GenPatterns([]string{"a", "{}", "*{}"}, 2, true, "")...)
		ps = append(ps, poolDef{name: "core4", patterns: core, paths: rsx.GenPaths([]string{"a", "b"}, 3), hosts: []string{""}, k: 4})
	}
	return ps
}

func runPool(c *mc.Ctx, r *mc.Result, pd poolDef) {
	if pd.methods != nil {
		saved := methods
		methods = pd.methods
		defer func() { methods = saved }()
	}
	// specs: pattern x {none, ignore, redirect}
	var specs []rsx.RouteSpec
	if pd.opts == nil {
		pd.opts = []int{rsx.SlashNone, rsx.SlashIgnore, rsx.SlashRedirect}
	}
	for _, p := range pd.patterns {
		for _, s := range pd.opts {
			specs = append(specs, rsx.RouteSpec{Method: "GET", Pattern: p, Slash: s})
		}
	}
	r.Bounds["pool."+pd.name] = fmt.Sprintf("%d patterns x %d slash options, subsets<=%d, %d paths x %d hosts x methods %v", len(pd.patterns), len(pd.opts), pd.k, len(pd.paths), len(pd.hosts), methods)
	stopped := false
	rsx.Subsets(len(specs), pd.k, func(i int, idx []int) {
		if !c.Mine(i) || stopped {
			return
		}
		if c.ExpiredEvery(256) {
			stopped = true
			r.NotExhaustive = append(r.NotExhaustive, fmt.Sprintf("pool %s: time guard hit at subset #%d", pd.name, i))
			return
		}
		set := make([]rsx.RouteSpec, 0, len(idx))
		for j, x := range idx {
			if j > 0 && specs[idx[j-1]].Pattern == specs[x].Pattern {
				return // same pattern twice
			}
			set = append(set, specs[x])
		}
		full := expand(set)
		evalEnv := func(e *rsx.Env, extra string) {
			if err := e.WithViews(); err != nil {
				r.Violate("rsx", "txn-disagree", err.Error()+" set "+rsx.SetString(full), Case{Set: full, Prof: pd.prof, Extra: extra})
				return
			}
			defer e.Done()
			r.States++
			pre := ""
			if extra != "" {
				pre = fmt.Sprintf("[after Handle(GET %s) and Delete(GET %s)] ", extra, extra)
			}
			for _, h := range pd.hosts {
				for _, p := range pd.paths {
					for mi, m := range methods {
						rq := rsx.Req{Method: m, Host: h, Path: p}
						abst, nontriv, class, msg := eval(e, rq, mi == 0)
						r.Evaluations++
						r.Transitions++
						if abst {
							r.Abstained++
						}
						if nontriv {
							r.DistinctNontrivial++
						}
						if class != "" {
							if strings.HasPrefix(msg, ShapePCS) {
								msg = ShapePCS + pre + strings.TrimPrefix(msg, ShapePCS)
							} else {
								msg = pre + msg
							}
							r.Violate("rsx", class, msg, Case{Set: full, Prof: pd.prof, Req: rq, Extra: extra, ViaUpdate: pd.viaUpdate})
						}
					}
				}
			}
		}
		if pd.afterDelete {
			in := map[string]bool{}
			for _, sp := range set {
				in[sp.Pattern] = true
			}
			for _, extra := range pd.patterns {
				if in[extra] {
					continue
				}
				e, err := rsx.BuildAfterDelete(full, "GET", extra, false, pd.prof)
				if err != nil {
					r.Count("histories_rejected_by_router", 1)
					continue
				}
				evalEnv(e, extra)
			}
			r.Count("sets", 1)
			return
		}
		build := rsx.Build
		if pd.viaUpdate {
			build = rsx.BuildViaUpdate
		}
		e, err := build(full, pd.prof)
		if err != nil {
			r.Count("sets_rejected_by_router", 1)
			return
		}
		r.Count("sets", 1)
		evalEnv(e, "")
		if i < 2 {
			r.Sample(map[string]any{"pool": pd.name, "set": rsx.SetString(set), "requests": len(pd.hosts) * len(pd.paths) * len(methods)})
		}
	})
}

// encoded axis: redirect targets with reserved characters, raw and escaped, with query strings.
func runEncoded(c *mc.Ctx, r *mc.Result) {
	type seg struct{ dec, raw string }
	segs := []seg{{"a", ""}, {"a:b", ""}, {"a?b", "a%3Fb"}, {"a#b", "a%23b"}, {"a%b", "a%25b"}, {"a b", "a%20b"}, {"é", ""}, {"é", "%C3%A9"},
		{"https:e.com", ""}, {"a/b", "a%2Fb"}, {"a;b", ""}, {"a&b=c", ""}, {"..a", ""}, {"a=b", ""}, {"a+b", ""}, {"@a", ""}, {"a\\b", "a%5Cb"},
		// escaped separators and dots: the escaped form is clean although the decoded form is not
		{"a//b", "a%2F%2Fb"}, {"a/./b", "a%2F.%2Fb"}, {"a/", "a%2F"}, {"/a", "%2Fa"}, {"..", "%2E%2E"}, {".", "%2E"}, {"a/../b", "a%2F..%2Fb"},
		// a colon at the very start / end of the last segment, nothing but a colon
		{":a", ""}, {":", ""}, {":80", ""}, {"a:", ""}, {"::", ""}, {"..a", ""}, {"...", ""}}
	sets := [][]rsx.RouteSpec{
		{{Pattern: "/{p0}/", Slash: rsx.SlashRedirect}},
		{{Pattern: "/{p0}", Slash: rsx.SlashRedirect}},
		{{Pattern: "/a/{p1}/", Slash: rsx.SlashRedirect}},
		{{Pattern: "/a/{p1}", Slash: rsx.SlashRedirect}},
		{{Pattern: "/*{c0}/", Slash: rsx.SlashRedirect}},
		{{Pattern: "/{p0}/{p1}/", Slash: rsx.SlashRedirect}},
		{{Pattern: "/{p0}/{p1}", Slash: rsx.SlashRedirect}},
		{{Pattern: "/a/x{p1}/", Slash: rsx.SlashRedirect}},
		{{Pattern: "/{p0}/", Slash: rsx.SlashIgnore}},
		{{Pattern: "/{p0}", Slash: rsx.SlashIgnore}},
	}
	r.Bounds["encoded"] = fmt.Sprintf("%d single-route sets x prefixes {/, /a/, /s/} x %d last segments (decoded and escaped) x trailing slash x query {none, q=1&r=%%2F, raw non-ASCII} x methods %v", len(sets), len(segs), methods)
	n := 0
	for si, s := range sets {
		for i := range s {
			s[i].Method = "GET"
		}
		full := expand(s)
		e, err := rsx.Build(full, rsx.Profile{})
		if err != nil {
			r.Errors = append(r.Errors, "encoded: "+err.Error())
			return
		}
		for _, prefix := range []seg{{"/", ""}, {"/a/", ""}, {"/a:b/", ""}, {"/é/", "/%C3%A9/"}} {
			for _, sg := range segs {
				for _, slash := range []string{"", "/"} {
					for _, q := range []string{"", "q=1&r=%2F", "n=caf\u00e9&e=\u20ac"} {
						for _, m := range methods {
							n++
							if !c.Mine(n) {
								continue
							}
							// build the request the way net/http does: parse the escaped request target
							pr, sr := prefix.raw, sg.raw
							if pr == "" {
								pr = defaultEscape(prefix.dec)
							}
							if sr == "" {
								sr = defaultEscape(sg.dec)
							}
							target := pr + sr + slash
							if q != "" {
								target += "?" + q
							}
							u, err := url.ParseRequestURI(target)
							if err != nil {
								r.Errors = append(r.Errors, "encoded: cannot parse target "+target+": "+err.Error())
								return
							}
							rq := rsx.Req{Method: m, Path: u.Path, Raw: u.RawPath, Query: u.RawQuery}
							abst, nontriv, class, msg := eval(e, rq, m == "GET")
							r.Evaluations++
							r.Transitions++
							if abst {
								r.Abstained++
							}
							if nontriv {
								r.DistinctNontrivial++
							}
							if class != "" {
								r.Violate("encoded", class, msg, Case{Set: full, Req: rq})
							}
						}
					}
				}
			}
		}
		_ = si
	}
}

// defaultEscape escapes a decoded path (segments separated by '/') the way a client would.
func defaultEscape(p string) string {
	parts := strings.Split(p, "/")
	for i := range parts {
		parts[i] = url.PathEscape(parts[i])
	}
	return strings.Join(parts, "/")
}

func replay(c *mc.Ctx, raw json.RawMessage) string {
	var cs Case
	if err := json.Unmarshal(raw, &cs); err != nil {
		return "bad case: " + err.Error()
	}
	var e *rsx.Env
	var err error
	pre := ""
	if cs.Extra != "" {
		e, err = rsx.BuildAfterDelete(cs.Set, "GET", cs.Extra, false, cs.Prof)
		pre = fmt.Sprintf("[after Handle(GET %s) and Delete(GET %s)] ", cs.Extra, cs.Extra)
	} else if cs.ViaUpdate {
		e, err = rsx.BuildViaUpdate(cs.Set, cs.Prof)
		pre = "[every route registered with another option first, then replaced by Update] "
	} else {
		e, err = rsx.Build(cs.Set, cs.Prof)
	}
	if err != nil {
		return ""
	}
	if err := e.WithViews(); err != nil {
		return err.Error()
	}
	defer e.Done()
	_, _, _, msg := eval(e, cs.Req, true)
	if msg != "" {
		if strings.HasPrefix(msg, ShapePCS) {
			msg = ShapePCS + pre + strings.TrimPrefix(msg, ShapePCS)
		} else {
			msg = pre + msg
		}
	}
	return msg
}

func init() {
	mc.Register(&mc.Check{
		ID:    "C08",
		Level: "exploration",
		Rule: "every subset (size<=K) of (pattern, slash option) pairs from generated pools, registered under GET, POST and CONNECT, x every request path of the alphabet (incl. unclean dot-segment paths) x 3 methods; plus an encoded-path axis (reserved characters, escaped and unescaped, query strings); " +
			"non-trivial = the reference finds a trailing-slash opportunity, or finds none although some route alone matches the slash-adjusted path",
		Assumptions: []string{
			"reference tsr rule: no direct match, path != '/', highest-priority route matching the path with a trailing slash added (consumed by a literal '/' of the pattern, never by a wildcard) or removed; hostname tree (direct or adjusted) before path-only tree",
			"Location is judged by RFC 3986 resolution (net/url ResolveReference) against the request URL",
			"reference CleanPath decides 'already clean'",
		},
		Parts: []mc.Part{
			{Name: "rsx", Run: func(c *mc.Ctx, r *mc.Result) {
				for _, pd := range pools(c.Quick()) {
					runPool(c, r, pd)
				}
			}, Replay: replay},
			{Name: "encoded", Run: runEncoded, Replay: replay},
		},
	})
}
