// Package c06: reads never wait for writers.
package c06

import (
	"encoding/json"
	"fmt"
	"net/http"
	"strconv"
	"strings"

	"github.com/tigerwill90/fox"
	vs "github.com/tigerwill90/fox/verifsync"

	"verifharness/fx"
	"verifharness/mc"
)

// env is the world one execution runs in.
type env struct {
	f         *fox.Router
	wtxn      *fox.Txn // the parked write transaction (held open for the whole execution)
	staleIt   fox.Iter // taken before the last commit
	staleRO   *fox.Txn // read-only txn taken before the last commit
	staleCC   fox.ContextCloser
	staleSnap *fox.Txn
}

var profiles = []struct {
	name string
	opts func() []fox.GlobalOption
	host bool
}{
	{"default", func() []fox.GlobalOption { return nil }, false},
	{"hostname", func() []fox.GlobalOption { return nil }, true},
	{"405+options+ignore-slash", func() []fox.GlobalOption {
		return []fox.GlobalOption{fox.WithNoMethod(true), fox.WithAutoOptions(true), fox.WithIgnoreTrailingSlash(true)}
	}, false},
	{"redirect-slash", func() []fox.GlobalOption { return []fox.GlobalOption{fox.WithRedirectTrailingSlash(true)} }, false},
}

// writer stages: what the parked writer did before parking (run in the setup phase, so the
// writer lock is logically held for the whole execution and the writer never runs again).
var stages = []struct {
	name string
	park func(e *env)
}{
	{"no-writer", func(e *env) {}},
	{"txn-just-opened", func(e *env) { e.wtxn = e.f.Txn(true) }},
	{"txn-after-uncommitted-writes", func(e *env) {
		e.wtxn = e.f.Txn(true)
		e.wtxn.Handle("GET", "/new", fx.VerHandler(9))
		e.wtxn.Delete("GET", "/a")
		e.wtxn.Update("GET", "/p/{x}", fx.VerHandler(9))
	}},
	{"txn-after-snapshot", func(e *env) {
		e.wtxn = e.f.Txn(true)
		e.wtxn.Handle("GET", "/new", fx.VerHandler(9))
		e.staleSnap = e.wtxn.Snapshot()
		e.wtxn.Handle("GET", "/new2", fx.VerHandler(9))
	}},
	{"txn-after-iter", func(e *env) {
		e.wtxn = e.f.Txn(true)
		e.wtxn.Handle("GET", "/new", fx.VerHandler(9))
		_ = e.wtxn.Iter()
		e.wtxn.Truncate("POST")
	}},
}

func serve(e *env, method, host, path string) {
	e.f.ServeHTTP(fx.NewRW(), fx.Req(method, host, path))
}

func drain2(it func(func(string, *fox.Route) bool)) {
	for range it {
	}
}

func methods(ms ...string) func(func(string) bool) {
	return func(y func(string) bool) {
		for _, m := range ms {
			if !y(m) {
				return
			}
		}
	}
}

// entries: every read entry point.
var entries = []struct {
	name string
	run  func(e *env)
}{
	{"ServeHTTP/direct", func(e *env) { serve(e, "GET", "", "/a") }},
	{"ServeHTTP/direct-param", func(e *env) { serve(e, "GET", "", "/p/v") }},
	{"ServeHTTP/slash-adjusted", func(e *env) { serve(e, "GET", "", "/a/") }},
	{"ServeHTTP/404", func(e *env) { serve(e, "GET", "", "/zzz") }},
	{"ServeHTTP/405", func(e *env) { serve(e, "DELETE", "", "/a") }},
	{"ServeHTTP/options", func(e *env) { serve(e, "OPTIONS", "", "/a") }},
	{"ServeHTTP/options-star", func(e *env) { serve(e, "OPTIONS", "", "*") }},
	{"ServeHTTP/host", func(e *env) { serve(e, "GET", "a.b", "/h") }},
	{"ServeHTTP/catchall-infix", func(e *env) { serve(e, "GET", "", "/c/x/y/z") }},
	{"ServeHTTP/handler-clonewith", func(e *env) { serve(e, "GET", "", "/cw") }},
	{"ServeHTTP/handler-clone", func(e *env) { serve(e, "GET", "", "/cl") }},
	{"Lookup+Close", func(e *env) {
		_, cc, _ := e.f.Lookup(fx.WrapRW(fx.NewRW()), fx.Req("GET", "", "/p/v"))
		if cc != nil {
			cc.Close()
		}
	}},
	{"Reverse", func(e *env) { e.f.Reverse("GET", "a.b", "/h") }},
	{"Has", func(e *env) { e.f.Has("GET", "/a") }},
	{"Route", func(e *env) { e.f.Route("GET", "/p/{x}") }},
	{"Len", func(e *env) { e.f.Len() }},
	{"Stats", func(e *env) { e.f.Stats() }},
	{"NewRoute", func(e *env) {
		e.f.NewRoute("/nr/{x}", fx.VerHandler(1), fox.WithMiddleware(func(n fox.HandlerFunc) fox.HandlerFunc { return n }))
	}},
	{"Iter.All", func(e *env) { drain2(e.f.Iter().All()) }},
	{"Iter.Methods", func(e *env) {
		for range e.f.Iter().Methods() {
		}
	}},
	{"Iter.Prefix", func(e *env) { drain2(e.f.Iter().Prefix(methods("GET", "POST"), "/p")) }},
	{"Iter.Routes", func(e *env) { drain2(e.f.Iter().Routes(methods("GET", "POST"), "/a")) }},
	{"Iter.Reverse", func(e *env) { drain2(e.f.Iter().Reverse(methods("GET", "POST"), "", "/p/v")) }},
	{"Txn(false)+reads+Commit", func(e *env) {
		t := e.f.Txn(false)
		t.Has("GET", "/a")
		t.Route("GET", "/a")
		t.Reverse("GET", "", "/p/v")
		t.Len()
		_, cc, _ := t.Lookup(fx.WrapRW(fx.NewRW()), fx.Req("GET", "", "/p/v"))
		if cc != nil {
			cc.Close()
		}
		drain2(t.Iter().All())
		drain2(t.Iter().Routes(methods("GET"), "/a"))
		t.Commit()
	}},
	{"Txn(false)+Snapshot+Abort", func(e *env) {
		t := e.f.Txn(false)
		s := t.Snapshot()
		s.Has("GET", "/a")
		s.Abort()
		t.Abort()
	}},
	{"Txn(false)+write-attempts", func(e *env) {
		t := e.f.Txn(false)
		t.Handle("GET", "/x", fx.VerHandler(1))
		t.Delete("GET", "/a")
		t.Truncate()
		t.Abort()
	}},
	{"View", func(e *env) {
		e.f.View(func(t *fox.Txn) error { t.Has("GET", "/a"); drain2(t.Iter().All()); return nil })
	}},
	{"stale Iter.Routes", func(e *env) { drain2(e.staleIt.Routes(methods("GET", "POST"), "/a")) }},
	{"stale Iter.Reverse", func(e *env) { drain2(e.staleIt.Reverse(methods("GET"), "", "/p/v")) }},
	{"stale Iter.All", func(e *env) { drain2(e.staleIt.All()) }},
	{"stale ContextCloser.Close", func(e *env) { e.staleCC.Close() }},
	{"stale read-only Txn", func(e *env) {
		e.staleRO.Has("GET", "/a")
		_, cc, _ := e.staleRO.Lookup(fx.WrapRW(fx.NewRW()), fx.Req("GET", "", "/p/v"))
		if cc != nil {
			cc.Close()
		}
		drain2(e.staleRO.Iter().Routes(methods("GET"), "/a"))
		e.staleRO.Abort()
	}},
	{"writer's Snapshot reads", func(e *env) {
		if e.staleSnap != nil {
			e.staleSnap.Has("GET", "/new")
			drain2(e.staleSnap.Iter().All())
			e.staleSnap.Reverse("GET", "", "/p/v")
		}
	}},
}

func build(pi, si int) *env {
	pr := profiles[pi]
	f, err := fox.New(pr.opts()...)
	if err != nil {
		panic(err)
	}
	e := &env{f: f}
	must := func(_ *fox.Route, err error) {
		if err != nil {
			panic(err)
		}
	}
	must(f.Handle("GET", "/a", fx.VerHandler(1)))
	must(f.Handle("POST", "/a", fx.VerHandler(1)))
	must(f.Handle("GET", "/p/{x}", fx.VerHandler(1)))
	must(f.Handle("GET", "/c/*{w}/z", fx.VerHandler(1)))
	must(f.Handle("GET", "/cw", func(c fox.Context) {
		cc := c.CloneWith(c.Writer(), c.Request())
		cc.Close()
	}))
	must(f.Handle("GET", "/cl", func(c fox.Context) { _ = c.Clone() }))
	if pr.host {
		must(f.Handle("GET", "a.b/h", fx.VerHandler(1)))
		must(f.Handle("GET", "{s}.b/h/{x}", fx.VerHandler(1)))
	}
	// handles taken now become stale after the next commit
	e.staleIt = f.Iter()
	e.staleRO = f.Txn(false)
	_, e.staleCC, _ = f.Lookup(fx.WrapRW(fx.NewRW()), fx.Req("GET", "", "/p/v"))
	must(f.Handle("GET", "/later", fx.VerHandler(2)))
	stages[si].park(e)
	return e
}

func scenario(pi, si, ei int) *mc.Scenario {
	name := fmt.Sprintf("%s | writer:%s | %s", profiles[pi].name, stages[si].name, entries[ei].name)
	return &mc.Scenario{
		Name: name,
		Build: func() *mc.Instance {
			e := build(pi, si)
			return &mc.Instance{
				Bodies: []func(){func() { entries[ei].run(e) }},
				Check: func(x *mc.Exec) (string, string, string) {
					if x.S.Deadlock || !x.S.Finished(0) {
						return "blocked", "reader-blocked", fmt.Sprintf("read entry point %q cannot complete while a write transaction is held open (%s): %s", entries[ei].name, stages[si].name, x.S.DeadInfo)
					}
					if pv, stk := x.S.PanicOf(0); pv != nil {
						return "panic", "panic", fmt.Sprintf("read entry point %q panicked: %v\n%s", entries[ei].name, pv, mc.NormStack(stk, 10))
					}
					pt := x.S.PerThread[0]
					locks := pt[vs.OpLock] + pt[vs.OpRLock] + pt[vs.OpTryLock] + pt[vs.OpUnlock] + pt[vs.OpRUnlock]
					if locks > 0 {
						return "locks", "reader-takes-lock", fmt.Sprintf("read entry point %q performed %d mutex operations (lock=%d rlock=%d trylock=%d): readers must never touch the writer lock", entries[ei].name, locks, pt[vs.OpLock], pt[vs.OpRLock], pt[vs.OpTryLock])
					}
					return fmt.Sprintf("ok loads=%d poolget=%d", pt[vs.OpLoad], pt[vs.OpPoolGet]), "", ""
				},
			}
		},
	}
}

// twoReaders: two reader threads at once while a write transaction is parked: a reader must not
// wait for the writer even when it collides with another reader on some shared scratch state.
var pairEntries = []string{"Has", "Route", "Reverse", "Lookup+Close", "ServeHTTP/direct-param", "ServeHTTP/catchall-infix", "ServeHTTP/405", "Iter.Reverse", "Len"}

func twoReaders() []*mc.Scenario {
	idx := map[string]int{}
	for i, e := range entries {
		idx[e.name] = i
	}
	var out []*mc.Scenario
	for i, a := range pairEntries {
		for _, b := range pairEntries[i:] {
			a, b := a, b
			for _, pi := range []int{0, 2} {
				pi := pi
				out = append(out, &mc.Scenario{
					Name: fmt.Sprintf("two-readers %s | %s || %s", profiles[pi].name, a, b),
					Build: func() *mc.Instance {
						e := build(pi, 2) // write transaction parked after uncommitted writes
						return &mc.Instance{
							Bodies: []func(){func() { entries[idx[a]].run(e) }, func() { entries[idx[b]].run(e) }},
							Check: func(x *mc.Exec) (string, string, string) {
								if x.S.Deadlock || !x.S.Finished(0) || !x.S.Finished(1) {
									return "blocked", "reader-blocked", fmt.Sprintf("readers %q and %q cannot both complete while a write transaction is held open: %s", a, b, x.S.DeadInfo)
								}
								locks := 0
								for t := 0; t < 2; t++ {
									if pv, stk := x.S.PanicOf(t); pv != nil {
										return "panic", "panic", fmt.Sprintf("reader panicked: %v\n%s", pv, mc.NormStack(stk, 10))
									}
									pt := x.S.PerThread[t]
									locks += pt[vs.OpLock] + pt[vs.OpRLock] + pt[vs.OpTryLock] + pt[vs.OpUnlock] + pt[vs.OpRUnlock]
								}
								if locks > 0 {
									return "locks", "reader-takes-lock", fmt.Sprintf("readers %q and %q performed %d mutex operations: readers must never touch the writer lock", a, b, locks)
								}
								return "ok", "", ""
							},
						}
					},
				})
			}
		}
	}
	return out
}

// converse scenarios: parked readers never block a writer; writers wait only for writers.
func converse() []*mc.Scenario {
	var out []*mc.Scenario
	type rd struct {
		name string
		body func(f *fox.Router, g *vs.Gate)
	}
	readers := []rd{
		{"reader parked inside a handler", func(f *fox.Router, g *vs.Gate) {
			f.ServeHTTP(fx.NewRW(), fx.Req("GET", "", "/park"))
		}},
		{"reader parked inside View", func(f *fox.Router, g *vs.Gate) {
			f.View(func(t *fox.Txn) error { t.Has("GET", "/a"); g.Park(); return nil })
		}},
		{"reader parked mid-iteration", func(f *fox.Router, g *vs.Gate) {
			for range f.Iter().All() {
				g.Park()
			}
		}},
		{"reader parked holding a Lookup context", func(f *fox.Router, g *vs.Gate) {
			_, cc, _ := f.Lookup(fx.WrapRW(fx.NewRW()), fx.Req("GET", "", "/a"))
			g.Park()
			if cc != nil {
				cc.Close()
			}
		}},
	}
	for _, r := range readers {
		r := r
		out = append(out, &mc.Scenario{
			Name: "converse | " + r.name,
			Build: func() *mc.Instance {
				f, _ := fox.New()
				g := &vs.Gate{}
				f.Handle("GET", "/a", fx.VerHandler(1))
				f.Handle("GET", "/park", func(c fox.Context) { g.Park() })
				done := 0
				return &mc.Instance{
					Bodies: []func(){
						func() { r.body(f, g) },
						func() {
							f.Handle("GET", "/w1", fx.VerHandler(1))
							f.Updates(func(t *fox.Txn) error { t.Handle("GET", "/w2", fx.VerHandler(1)); t.Delete("GET", "/a"); return nil })
							f.Delete("GET", "/w1")
							done = 1
						},
					},
					Daemon: []bool{true, false},
					Check: func(x *mc.Exec) (string, string, string) {
						if x.S.Deadlock || done != 1 {
							return "blocked", "writer-blocked-by-reader", "a writer cannot complete while a " + r.name + ": " + x.S.DeadInfo
						}
						if pv, _ := x.S.PanicOf(1); pv != nil {
							return "panic", "panic", fmt.Sprint(pv)
						}
						return "ok", "", ""
					},
				}
			},
		})
	}
	// a writer that commits and then holds a new write transaction open forever, concurrent with every
	// read entry point: whatever the interleaving of the commit with the read, the reader finishes and
	// never touches the writer lock
	for ei := range entries {
		ei := ei
		out = append(out, &mc.Scenario{
			Name: "commit-then-park | " + entries[ei].name,
			Build: func() *mc.Instance {
				e := build(2, 0)
				g := &vs.Gate{}
				return &mc.Instance{
					Bodies: []func(){
						func() {
							e.f.Handle("GET", "/committed", fx.VerHandler(3))
							e.f.Update("GET", "/a", fx.VerHandler(4))
							t := e.f.Txn(true)
							t.Handle("GET", "/uncommitted", fx.VerHandler(5))
							g.Park()
						},
						func() { entries[ei].run(e) },
					},
					Daemon: []bool{true, false},
					Check: func(x *mc.Exec) (string, string, string) {
						if x.S.Deadlock || !x.S.Finished(1) {
							return "blocked", "reader-blocked", fmt.Sprintf("read entry point %q cannot complete while a writer commits and then holds a write transaction open: %s", entries[ei].name, x.S.DeadInfo)
						}
						if pv, stk := x.S.PanicOf(1); pv != nil {
							return "panic", "panic", fmt.Sprintf("read entry point %q panicked: %v\n%s", entries[ei].name, pv, mc.NormStack(stk, 10))
						}
						pt := x.S.PerThread[1]
						if locks := pt[vs.OpLock] + pt[vs.OpRLock] + pt[vs.OpTryLock] + pt[vs.OpUnlock] + pt[vs.OpRUnlock]; locks > 0 {
							return "locks", "reader-takes-lock", fmt.Sprintf("read entry point %q performed %d mutex operations while a writer was committing: readers must never touch the writer lock", entries[ei].name, locks)
						}
						return "ok", "", ""
					},
				}
			},
		})
	}
	// two writers: the second waits exactly for the first
	out = append(out, &mc.Scenario{
		Name: "converse | two writers",
		Build: func() *mc.Instance {
			f, _ := fox.New()
			var order []string
			return &mc.Instance{
				Bodies: []func(){
					func() {
						t := f.Txn(true)
						order = append(order, "w1-open")
						vs.Step("w1")
						t.Handle("GET", "/x", fx.VerHandler(1))
						vs.Step("w1")
						order = append(order, "w1-commit")
						t.Commit()
					},
					func() {
						_, err := f.Handle("GET", "/x", fx.VerHandler(2))
						if err == nil {
							order = append(order, "w2-ok")
						} else {
							order = append(order, "w2-exist")
						}
					},
				},
				Check: func(x *mc.Exec) (string, string, string) {
					if x.S.Deadlock {
						return "deadlock", "deadlock", "two writers deadlock: " + x.S.DeadInfo
					}
					o := fmt.Sprint(order)
					// w2 must not complete between w1-open and w1-commit
					if len(order) == 3 && order[0] == "w1-open" && order[1] != "w1-commit" {
						return o, "writers-overlap", "the second writer completed while the first write transaction was open: " + o
					}
					return o, "", ""
				},
			}
		},
	})
	return out
}

// crowd: n requests are in flight while a writer commits and then holds a new write transaction open for ever;
// only then do their handlers return. To keep the schedule tree small, n-1 of them are nested on one thread (each
// handler serves the next request before returning, so they finish one after the other), the last one runs on a
// thread of its own. Every request must complete, whatever the interleaving, without touching the writer lock.
func crowd(n int) *mc.Scenario {
	return &mc.Scenario{
		Name: fmt.Sprintf("crowd | %d requests outliving their tree", n),
		Build: func() *mc.Instance {
			f, _ := fox.New()
			gate, all := &vs.Gate{}, &vs.Gate{}
			entered := 0
			f.Handle("GET", "/park/{id}", func(c fox.Context) {
				i, _ := strconv.Atoi(c.Param("id"))
				if entered++; entered == n {
					all.Open()
				}
				if i+1 < n-1 {
					f.ServeHTTP(fx.NewRW(), fx.Req("GET", "", "/park/"+strconv.Itoa(i+1)))
				} else {
					gate.Park()
				}
				c.Writer().WriteHeader(204)
			})
			bodies := []func(){func() { f.ServeHTTP(fx.NewRW(), fx.Req("GET", "", "/park/0")) }}
			bodies = append(bodies, func() { f.ServeHTTP(fx.NewRW(), fx.Req("GET", "", "/park/"+strconv.Itoa(n-1))) })
			bodies = append(bodies, func() {
				all.Park()
				f.Handle("GET", "/committed", fx.VerHandler(3))
				t := f.Txn(true)
				t.Handle("GET", "/uncommitted", fx.VerHandler(5))
				gate.Open()
			})
			return &mc.Instance{
				Bodies: bodies,
				Check: func(x *mc.Exec) (string, string, string) {
					for t := 0; t < 2; t++ {
						if x.S.Deadlock || !x.S.Finished(t) {
							return "blocked", "reader-blocked", fmt.Sprintf("with %d requests in flight across a commit, reader thread %d cannot complete while a write transaction is held open: %s", n, t, x.S.DeadInfo)
						}
						if pv, stk := x.S.PanicOf(t); pv != nil {
							return "panic", "panic", fmt.Sprintf("reader thread %d panicked: %v\n%s", t, pv, mc.NormStack(stk, 10))
						}
						pt := x.S.PerThread[t]
						if locks := pt[vs.OpLock] + pt[vs.OpRLock] + pt[vs.OpTryLock] + pt[vs.OpUnlock] + pt[vs.OpRUnlock]; locks > 0 {
							return "locks", "reader-takes-lock", fmt.Sprintf("a request in flight across a commit performed %d mutex operations", locks)
						}
					}
					return "ok", "", ""
				},
			}
		},
	}
}

func all() []*mc.Scenario {
	var scs []*mc.Scenario
	for pi := range profiles {
		for si := range stages {
			for ei := range entries {
				scs = append(scs, scenario(pi, si, ei))
			}
		}
	}
	scs = append(scs, converse()...)
	scs = append(scs, crowd(18), crowd(34))
	return append(scs, twoReaders()...)
}

var _ = http.MethodGet

func init() {
	mc.Register(&mc.Check{
		ID:    "C06",
		Level: "model_checking",
		Rule: "full product {read entry point} x {stage at which a write transaction is parked and held open for the whole execution} x {router option profile}, each run under the controlled scheduler with the writer lock logically held: the reader must run to completion (otherwise the scheduler reports the blocking operation) and its event log must contain no mutex operation at all; " +
			"plus converse scenarios (parked readers versus writers, two writers) explored over all interleavings; distinct_nontrivial = distinct (scenario, outcome) classes",
		Assumptions: []string{
			"blocking is decided by the scheduler (a Lock that can never be granted is a deadlock), never by a timeout",
			"the statement's static call-graph reading (every path statically reachable from read entry points) is not decided here; the dynamic product covers every exported read entry point on every ServeHTTP branch, incl. handles that became stale after a commit",
		},
		Parts: []mc.Part{{
			Name: "product",
			Run: func(c *mc.Ctx, r *mc.Result) {
				for i, sc := range all() {
					if !c.Mine(i) {
						continue
					}
					cc := *c
					cc.NShards = 1
					bound := -1
					maxExecs := int64(500000)
					if strings.HasPrefix(sc.Name, "crowd") {
						bound = 1
						if !c.Quick() {
							bound, maxExecs = 2, 2000000
						}
					} else if strings.HasPrefix(sc.Name, "commit-then-park") || strings.HasPrefix(sc.Name, "two-readers") {
						bound = 2
						if !c.Quick() {
							bound = 6
						}
					}
					// MaxExecs: the largest schedule tree on the unchanged code has under 10^4 executions; a tree 50x that size is
					// a runaway (e.g. a busy-wait loop under unbounded preemption) and is reported as not exhaustive
					// nobody waits by polling either: a writer polling for readers to finish, or a reader polling for a writer
					sc.SpinClass = "waits-by-polling"
					mc.Explore(&cc, r, "product", sc, mc.ExploreOpts{Bound: bound, MaxExecs: maxExecs})
				}
				mc.CountNontrivial(r)
				r.Bounds = map[string]string{"product": fmt.Sprintf("%d profiles x %d writer stages x %d read entry points + %d converse scenarios (unbounded interleavings) + %d two-reader scenarios (pairs of %d entry points x 2 profiles against a parked writer); commit-then-park and two-reader scenarios: preemption bound 2 (quick) / 6 (thorough)", len(profiles), len(stages), len(entries), len(converse()), len(twoReaders()), len(pairEntries))}
			},
			Replay: func(c *mc.Ctx, cs json.RawMessage) string { return mc.ReplaySched(all(), cs) },
		}},
	})
}
