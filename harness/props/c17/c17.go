// Package c17: CleanPath returns the canonical path.
package c17

import (
	"encoding/json"
	"fmt"
	"strings"

	"github.com/tigerwill90/fox"

	"verifharness/fx"
	"verifharness/mc"
	"verifharness/ref"
)

var letters = []string{"/", ".", "a", "%", "é"}

func checkOne(p string) (class, msg string) {
	var got string
	var pv any
	func() {
		defer func() { pv = recover() }()
		got = fox.CleanPath(p)
	}()
	if pv != nil {
		return "panic", fmt.Sprintf("CleanPath(%q) panicked: %v", p, pv)
	}
	want := ref.CleanPath(p)
	if got != want {
		return "not-canonical", fmt.Sprintf("CleanPath(%q) = %q, canonical form is %q", p, got, want)
	}
	var again string
	func() {
		defer func() { pv = recover() }()
		again = fox.CleanPath(got)
	}()
	if pv != nil || again != got {
		return "not-idempotent", fmt.Sprintf("CleanPath(CleanPath(%q)) = %q, want %q (panic=%v)", p, again, got, pv)
	}
	return "", ""
}

func nontrivial(p string) bool {
	return strings.Contains(p, "//") || strings.Contains(p, "/.") || !strings.HasPrefix(p, "/")
}

func runStrings(c *mc.Ctx, r *mc.Result) {
	maxLen := 12
	if c.Quick() {
		maxLen = 10
	}
	r.Bounds["strings"] = fmt.Sprintf("all strings of <=%d letters over %v", maxLen, letters)
	shard := 0
	var rec func(cur string, n int)
	stopped := false
	rec = func(cur string, n int) {
		if stopped {
			return
		}
		class, msg := checkOne(cur)
		r.Evaluations++
		if nontrivial(cur) {
			r.DistinctNontrivial++
		}
		if class != "" {
			r.Violate("strings", class, msg, cur)
		}
		if n == maxLen {
			return
		}
		for _, l := range letters {
			rec(cur+l, n+1)
		}
	}
	// shard on the first three letters
	for _, a := range letters {
		for _, b := range letters {
			for _, d := range letters {
				shard++
				if !c.Mine(shard) {
					continue
				}
				if c.Expired() {
					stopped = true
					r.NotExhaustive = append(r.NotExhaustive, "strings: time guard")
					return
				}
				rec(a+b+d, 3)
			}
		}
	}
	if c.Shard == 0 {
		for _, s := range []string{"", "/", ".", "a", "%", "é"} {
			checkAndCount(r, "strings", s)
		}
		for _, a := range letters {
			for _, b := range letters {
				checkAndCount(r, "strings", a+b)
			}
		}
		r.Sample("/a/./..//é/%/.")
	}
}

func checkAndCount(r *mc.Result, part, s string) {
	class, msg := checkOne(s)
	r.Evaluations++
	if nontrivial(s) {
		r.DistinctNontrivial++
	}
	if class != "" {
		r.Violate(part, class, msg, s)
	}
}

// runBoundary embeds every core string of <=5 letters into paddings that bring the total length to
// each value around the 128-byte stack buffer.
func runBoundary(c *mc.Ctx, r *mc.Result) {
	coreLen := 5
	if c.Quick() {
		coreLen = 4
	}
	var cores []string
	var rec func(cur string, n int)
	rec = func(cur string, n int) {
		cores = append(cores, cur)
		if n == coreLen {
			return
		}
		for _, l := range []string{"/", ".", "a"} {
			rec(cur+l, n+1)
		}
	}
	rec("", 0)
	pads := []struct {
		name string
		mk   func(n int) string
	}{
		{"aaa…", func(n int) string { return strings.Repeat("a", n) }},
		{"/a/a/…", func(n int) string { return strings.Repeat("/a", n/2) + strings.Repeat("a", n%2) }},
		{"./././…", func(n int) string { return strings.Repeat("./", n/2) + strings.Repeat("a", n%2) }},
		{"/../../…", func(n int) string { return strings.Repeat("/..", n/3) + strings.Repeat("a", n%3) }},
		{"/aa/../aa/../…", func(n int) string { return (strings.Repeat("/aa/..", n/6+1))[:n] }},
	}
	r.Bounds["boundary"] = fmt.Sprintf("%d core strings of <=%d letters over {/ . a} placed before and after %d padding shapes, total length 125..132", len(cores), coreLen, len(pads))
	i := 0
	for _, core := range cores {
		for _, pd := range pads {
			for total := 125; total <= 132; total++ {
				i++
				if !c.Mine(i) {
					continue
				}
				n := total - len(core)
				for _, s := range []string{pd.mk(n) + core, core + pd.mk(n), "/" + pd.mk(n-1) + core} {
					checkAndCount(r, "boundary", s)
				}
			}
		}
	}
}

// runRedirect: a trailing-slash redirect is only ever issued for already-clean request paths.
func runRedirect(c *mc.Ctx, r *mc.Result) {
	f, _ := fox.New(fox.WithRedirectTrailingSlash(true))
	f.Handle("GET", "/*{w}/", func(fox.Context) {})
	f.Handle("GET", "/x/*{w}", func(fox.Context) {})
	g, _ := fox.New(fox.WithRedirectTrailingSlash(true))
	g.Handle("GET", "/*{w}", func(fox.Context) {})
	h, _ := fox.New(fox.WithRedirectTrailingSlash(true))
	for _, p := range []string{"/a/", "/a/x/", "/x", "/x/a", "/{p}/a/", "/x/{p}/", "/a/{p}"} {
		h.Handle("GET", p, func(fox.Context) {})
	}
	maxLen := 8
	if c.Quick() {
		maxLen = 7
	}
	r.Bounds["redirect"] = fmt.Sprintf("every path '/'+s, s of <=%d letters over {/ . a x}, served by two single-catch-all routers and one static/parameter router with redirect enabled", maxLen-1)
	w := fx.NewRW()
	idx := 0
	var rec func(cur string, n int)
	rec = func(cur string, n int) {
		idx++
		if c.Mine(idx >> 6) {
			for ri, rt := range []*fox.Router{f, g, h} {
				w.Reset()
				rt.ServeHTTP(w, fx.Req("GET", "", cur))
				r.Evaluations++
				if w.Code == 301 {
					r.DistinctNontrivial++
					if cur != ref.CleanPath(cur) {
						r.Violate("redirect", "redirect-of-unclean-path", fmt.Sprintf("router %d redirected (301, Location %q) the unclean path %q (canonical %q)", ri, w.H.Get("Location"), cur, ref.CleanPath(cur)), cur)
					}
				}
			}
		}
		if n == maxLen {
			return
		}
		for _, l := range []string{"/", ".", "a", "x"} {
			rec(cur+l, n+1)
		}
	}
	rec("/", 1)
}

// runSequences: CleanPath is a function of its argument alone, whatever was cleaned before: every ordered pair
// of calls over a pool of inputs around and above the stack-buffer size (rooted and not, clean and not, lengths
// L and L+1 next to each other), the second answer compared with the reference.
func runSequences(c *mc.Ctx, r *mc.Result) {
	var pool []string
	for _, n := range []int{5, 100, 126, 127, 128, 129, 130, 131, 132, 133, 200, 201, 202, 255, 256, 257, 258} {
		pad := strings.Repeat("a", n)
		pool = append(pool, "/"+pad[1:], pad, "/a//"+pad[4:], "a/./"+pad[4:], pad[:n-3]+"/..", "/"+pad[:n-2]+"/", "//"+pad[2:])
	}
	r.Bounds["sequences"] = fmt.Sprintf("every ordered pair of CleanPath calls over %d inputs of 5..258 bytes (7 shapes x 17 lengths)", len(pool))
	idx := 0
	for _, p1 := range pool {
		idx++
		if !c.Mine(idx) {
			continue
		}
		for _, p2 := range pool {
			func() {
				defer func() { recover() }()
				fox.CleanPath(p1)
			}()
			class, msg := checkOne(p2)
			r.Evaluations++
			r.DistinctNontrivial++
			if class != "" {
				r.Violate("sequences", class, fmt.Sprintf("after CleanPath of a %d-byte input %.12q…: %s", len(p1), p1, msg), []string{p1, p2})
			}
		}
	}
}

func init() {
	mc.Register(&mc.Check{
		ID:    "C17",
		Level: "exploration",
		Rule: "every string up to a length over the alphabet {'/', '.', 'a', '%', 'é'} (complete enumeration), plus core strings embedded in paddings crossing the 128-byte stack buffer, compared with a split-and-stack reference, checked for idempotence and crash-freedom; every ordered pair of calls over long inputs (the answer does not depend on earlier calls); plus every short path served by redirecting routers (a 301 implies a clean path); " +
			"non-trivial = the input contains an empty or dot element or is not rooted; 301 answers for the redirect part",
		Assumptions: []string{"reference CleanPath (strings.Split + stack) written from the statement"},
		Parts: []mc.Part{
			{Name: "strings", Run: runStrings, Replay: replay},
			{Name: "boundary", Run: runBoundary, Replay: replay},
			{Name: "sequences", Run: runSequences, Replay: func(c *mc.Ctx, raw json.RawMessage) string {
				var ps []string
				if err := json.Unmarshal(raw, &ps); err != nil || len(ps) != 2 {
					return "bad case"
				}
				func() {
					defer func() { recover() }()
					fox.CleanPath(ps[0])
				}()
				_, msg := checkOne(ps[1])
				return msg
			}},
			{Name: "redirect", Run: runRedirect, Replay: func(c *mc.Ctx, raw json.RawMessage) string {
				r := mc.NewResult()
				cc := *c
				cc.NShards = 1
				runRedirect(&cc, r)
				if len(r.Violations) > 0 {
					return r.Violations[0].Msg
				}
				return ""
			}},
		},
	})
}

func replay(c *mc.Ctx, raw json.RawMessage) string {
	var s string
	if err := json.Unmarshal(raw, &s); err != nil {
		return "bad case"
	}
	_, msg := checkOne(s)
	return msg
}
