// Package c11: unserved requests get the right 404/405/OPTIONS answer and Allow header.
package c11

import (
	"encoding/json"
	"fmt"
	"sort"
	"strings"

	"github.com/tigerwill90/fox"

	"verifharness/mc"
	"verifharness/ref"
	"verifharness/rsx"
)

// Case is a replayable C11 case: the whole request sequence up to the failing request matters
// (pooled contexts), so the case records the set, the profile and the request list prefix.
type Case struct {
	Set  []rsx.RouteSpec `json:"set"`
	Prof rsx.Profile     `json:"prof"`
	Reqs []rsx.Req       `json:"reqs"`
	// ViaUpdate: every route was first registered with another handler and slash option, then replaced by Update
	ViaUpdate bool `json:"via_update,omitempty"`
}

func build(set []rsx.RouteSpec, prof rsx.Profile, viaUpdate bool) (*rsx.Env, error) {
	if viaUpdate {
		return rsx.BuildViaUpdate(set, prof)
	}
	return rsx.Build(set, prof)
}

func serves(e *rsx.Env, method, host, path string) (bool, bool) {
	want, decided := e.RefLookup(method, host, path)
	if want.Route == nil {
		return false, decided
	}
	return !want.Tsr || want.Route.Ignore, decided
}

func setOf(allow string) string {
	if allow == "" {
		return ""
	}
	parts := strings.Split(allow, ", ")
	sort.Strings(parts)
	return strings.Join(parts, ",")
}

// eval: (abstained, nontrivial, class, msg)
func eval(e *rsx.Env, rq rsx.Req) (bool, bool, string, string) {
	var o rsx.Obs
	func() {
		defer func() {
			if p := recover(); p != nil {
				o.Panic = fmt.Sprint(p)
			}
		}()
		e.Serve(rq, &o)
	}()
	if o.Panic != "" {
		return false, true, "panic", "panic: " + o.Panic
	}
	if o.Cap.Reentry != "" {
		return false, true, "context-leak", fmt.Sprintf("%s: set %s profile %+v request %s (handler %d)", o.Cap.Reentry, rsx.SetString(e.Set), e.Prof, rq, o.Cap.Handler)
	}
	mp := rq.MatchPath()
	want, decided := e.RefLookup(rq.Method, rq.Host, mp)
	if !decided {
		return true, false, "", ""
	}
	// is the request served (route handler or redirect)? then it is not C11's business
	served := false
	if want.Route != nil {
		switch {
		case !want.Tsr:
			served = true
		case rq.Method != "CONNECT" && rq.Path != "/" && want.Route.Ignore:
			served = true
		case rq.Method != "CONNECT" && rq.Path != "/" && want.Route.Redir && mp == ref.CleanPath(mp):
			served = true
		}
	}
	hdr := func() string {
		return fmt.Sprintf("set %s profile %+v request %s\n    observed: status=%d handler=%d allow=%q params=[%s] pattern=%q routeNil=%v scope=%d", rsx.SetString(e.Set), e.Prof, rq, o.Status, o.Cap.Handler, o.Allow, rsx.KVString(o.Cap.Params), o.Cap.Pattern, o.Cap.RouteNil, o.Cap.Scope)
	}
	if served {
		if o.Cap.Handler < 0 && o.Cap.Handler != rsx.HRedirect {
			// may be the known C08 finding (tsr missed); leave the verdict to C08
			return true, false, "", ""
		}
		return false, false, "", ""
	}
	if o.Cap.Handler > 0 || o.Cap.Handler == rsx.HRedirect {
		// served although the reference says unserved: C08's business (gray zone / tsr semantics)
		return true, false, "", ""
	}
	// unserved: compute the expected special handler
	var S []string
	grayAny := false
	for _, x := range e.Methods {
		ok, dec := serves(e, x, rq.Host, mp)
		if !dec {
			grayAny = true
		}
		if ok {
			S = append(S, x)
		}
	}
	if grayAny {
		return true, false, "", ""
	}
	wantHandler, wantStatus := rsx.HNoRoute, 404
	var wantAllow []string
	optionalOptions := false
	nontrivial := len(S) > 0
	if rq.Method == "OPTIONS" && e.Prof.AutoOptions {
		if mp == "*" {
			var all []string
			for _, x := range e.Methods {
				if x != "OPTIONS" {
					all = append(all, x)
				}
			}
			if len(all) == 0 && len(e.Methods) > 0 {
				return true, false, "", "" // only OPTIONS has routes: the statement does not decide
			}
			if len(all) > 0 {
				wantHandler, wantStatus = rsx.HOptions, 200
				wantAllow = append(all, "OPTIONS")
			}
			nontrivial = true
		} else if len(S) > 0 {
			wantHandler, wantStatus = rsx.HOptions, 200
			wantAllow = append([]string{}, S...)
			if !contains(S, "OPTIONS") {
				wantAllow = append(wantAllow, "OPTIONS")
			}
		}
	} else if e.Prof.NoMethod {
		var others []string
		for _, x := range S {
			if x != rq.Method {
				others = append(others, x)
			}
		}
		if len(others) > 0 {
			wantHandler, wantStatus = rsx.HNoMethod, 405
			wantAllow = others
			optionalOptions = e.Prof.AutoOptions && !contains(others, "OPTIONS")
		}
	}
	if o.Cap.Handler != wantHandler || o.Status != wantStatus || o.Cap.Runs != 1 {
		return false, nontrivial, "wrong-handler", fmt.Sprintf("want handler %d status %d: %s", wantHandler, wantStatus, hdr())
	}
	sort.Strings(wantAllow)
	got := setOf(o.Allow)
	w1 := strings.Join(wantAllow, ",")
	okAllow := got == w1
	if optionalOptions && optionsIn405(e.Prof) {
		// the statement does not say whether a 405 lists OPTIONS when OPTIONS is only answered automatically,
		// but it does say that the answer depends only on the router options: a router with the same options and
		// the single route GET /cal decides (calibration), and every other 405 must make the same choice
		w2 := append(append([]string{}, wantAllow...), "OPTIONS")
		sort.Strings(w2)
		w1 = strings.Join(w2, ",")
		okAllow = got == w1
	}
	if !okAllow {
		return false, nontrivial, "wrong-allow", fmt.Sprintf("want Allow set {%s}: %s", w1, hdr())
	}
	wantScope := map[int]fox.HandlerScope{rsx.HNoRoute: fox.NoRouteHandler, rsx.HNoMethod: fox.NoMethodHandler, rsx.HOptions: fox.OptionsHandler}[wantHandler]
	if !o.Cap.RouteNil || o.Cap.Pattern != "" || len(o.Cap.Params) != 0 || o.Cap.Scope != wantScope {
		return false, nontrivial, "context-leak", fmt.Sprintf("the special handler's context must expose no route, pattern or parameters and scope %d: %s", wantScope, hdr())
	}
	return false, nontrivial, "", ""
}

var calibrated = map[rsx.Profile]bool{}

// optionsIn405 reports whether a router with these options lists OPTIONS in the Allow header of a 405 although
// no OPTIONS route exists (calibration router: the single route GET /cal, request POST /cal).
func optionsIn405(prof rsx.Profile) bool {
	if v, ok := calibrated[prof]; ok {
		return v
	}
	v := false
	if e, err := rsx.Build([]rsx.RouteSpec{{Method: "GET", Pattern: "/cal"}}, prof); err == nil {
		var o rsx.Obs
		e.Serve(rsx.Req{Method: "POST", Path: "/cal"}, &o)
		v = contains(strings.Split(o.Allow, ", "), "OPTIONS")
	}
	calibrated[prof] = v
	return v
}

func contains(l []string, s string) bool {
	for _, x := range l {
		if x == s {
			return true
		}
	}
	return false
}

func specs() []rsx.RouteSpec {
	var out []rsx.RouteSpec
	for _, p := range []string{"/", "/a", "/a/", "/{x}", "/{x}/", "/a/{x}", "/*{w}", "a.b/a", "a.b/a/", "{h}.b/a", "{h}.{t}/b"} {
		for _, m := range []string{"GET", "POST", "FOO", "OPTIONS", "CONNECT"} {
			for s := 0; s < 3; s++ {
				out = append(out, rsx.RouteSpec{Method: m, Pattern: p, Slash: s})
			}
		}
	}
	return out
}

func requests() []rsx.Req { return requestsFor([]string{"", "a.b"}) }

func requestsFor(hosts []string) []rsx.Req { return requestsDepth(hosts, 2) }

func requestsDepth(hosts []string, depth int) []rsx.Req {
	var out []rsx.Req
	paths := append(rsx.GenPaths([]string{"a", "b"}, depth), "*")
	for _, h := range hosts {
		for _, p := range paths {
			for _, m := range []string{"GET", "POST", "DELETE", "FOO", "OPTIONS", "CONNECT"} {
				if p == "*" && m != "OPTIONS" {
					continue
				}
				out = append(out, rsx.Req{Method: m, Host: h, Path: p})
			}
		}
		// the empty path: what net/http hands over for an authority-form CONNECT and for an absolute-form target
		// without a path (OPTIONS http://host); adding a slash makes it "/"
		for _, m := range []string{"GET", "DELETE", "FOO", "OPTIONS", "CONNECT"} {
			out = append(out, rsx.Req{Method: m, Host: h, Path: ""})
		}
		// escaped targets: the router routes on the escaped form, which differs from the decoded path
		for _, e := range [][2]string{{"/a/b", "/a%2Fb"}, {"/a", "/%61"}, {"/a/", "/a%2F"}} {
			for _, m := range []string{"GET", "DELETE", "FOO", "OPTIONS"} {
				out = append(out, rsx.Req{Method: m, Host: h, Path: e[0], Raw: e[1]})
			}
		}
	}
	return out
}

// specs2: a static route, its parameter twin and a prefixed parameter below the twin, under two
// methods with every slash option: several trailing-slash candidates are met while backtracking and
// the first one's option decides whether the method serves the path.
func specs2() []rsx.RouteSpec {
	var out []rsx.RouteSpec
	for _, p := range []string{"/a/b", "/{x}/b", "/{x}/b{y}", "/a/b/"} {
		for _, m := range []string{"GET", "POST"} {
			for s := 0; s < 3; s++ {
				out = append(out, rsx.RouteSpec{Method: m, Pattern: p, Slash: s})
			}
		}
	}
	return out
}

func run(c *mc.Ctx, r *mc.Result) {
	k := 3
	if c.Quick() {
		k = 2
	}
	runSpecs(c, r, "space", specs(), k, requests())
	runSpecs(c, r, "space.candidates", specs2(), 3, requests())
	// method trees of different kinds side by side: one method with path-only routes whose direct match
	// leaves a parameter alternative pending, other methods with hostname routes only; Hosts that share
	// a first byte with a registered hostname without matching it
	var sp3 []rsx.RouteSpec
	for _, x := range [][2]string{{"GET", "/a"}, {"GET", "/{x}/a"}, {"GET", "/{x}"}, {"POST", "a.b/a"}, {"POST", "{h}.b/a"}, {"FOO", "a.b/a"}, {"FOO", "/a"}} {
		sp3 = append(sp3, rsx.RouteSpec{Method: x[0], Pattern: x[1]})
	}
	runSpecs(c, r, "space.mixed-trees", sp3, 4, requestsFor([]string{"", "a.b", "ab", "aa", "a", "b.b", "a.bb"}))
	// infix catch-alls next to parameter routes of depth 3: the lazy per-method lookups must backtrack
	// out of a failed infix branch
	var sp4 []rsx.RouteSpec
	for _, p := range []string{"/a/*{x}/b", "/{p}/a/b", "/{p}/b/a", "/*{w}/b", "/a/{p}/b", "/a/*{x}/b/a"} {
		for _, m := range []string{"GET", "POST"} {
			sp4 = append(sp4, rsx.RouteSpec{Method: m, Pattern: p})
		}
	}
	runSpecs(c, r, "space.infix", sp4, 3, requestsDepth([]string{""}, 3))
	// routes that reached their final options through Update (from another trailing-slash option): infix and
	// suffix catch-alls, parameters and static routes, with and without a trailing slash
	var sp5 []rsx.RouteSpec
	for _, p := range []string{"/a/*{x}/b", "/a/*{x}/b/", "/a/{p}/b", "/a/{p}/b/", "/*{w}/b", "/a/b", "/a/*{x}"} {
		for _, m := range []string{"GET", "POST"} {
			for _, sl := range []int{rsx.SlashNone, rsx.SlashIgnore} {
				sp5 = append(sp5, rsx.RouteSpec{Method: m, Pattern: p, Slash: sl})
			}
		}
	}
	viaUpdate = true
	runSpecs(c, r, "space.updated", sp5, 2, requestsDepth([]string{""}, 3))
	viaUpdate = false
	// a leaf whose only child is an intermediary node with a key of several bytes ending in a slash (/a -> /ab/ -> x, y):
	// a request ending on that node is neither the leaf nor one of the routes below
	var sp6 []rsx.RouteSpec
	for _, p := range []string{"/a", "/a/ab/x", "/a/ab/y", "/a/ab"} {
		for _, m := range []string{"GET", "POST"} {
			for _, sl := range []int{rsx.SlashNone, rsx.SlashIgnore} {
				sp6 = append(sp6, rsx.RouteSpec{Method: m, Pattern: p, Slash: sl})
			}
		}
	}
	var rq6 []rsx.Req
	for _, p := range []string{"/a", "/a/", "/a/ab", "/a/ab/", "/a/ab/x", "/a/ab/x/", "/a/a", "/a/ab/z", "/a/ab//"} {
		for _, m := range []string{"GET", "POST", "DELETE", "OPTIONS"} {
			rq6 = append(rq6, rsx.Req{Method: m, Path: p})
		}
	}
	runSpecs(c, r, "space.intermediary", sp6, 3, rq6)
	// infix catch-alls followed by further wildcards (the part after the catch-all is resolved by a nested lookup
	// with its own parameters): the lookups that compute the Allow list must leave nothing on the context the
	// no-method / options handler runs with
	var sp7 []rsx.RouteSpec
	for _, p := range []string{"/a/*{x}/b/{y}", "/a/*{x}/b/{y}/", "/a/*{x}/b/*{z}", "/*{x}/b/{y}/c/{u}", "/a/{y}"} {
		for _, m := range []string{"GET", "POST"} {
			for _, sl := range []int{rsx.SlashNone, rsx.SlashIgnore} {
				sp7 = append(sp7, rsx.RouteSpec{Method: m, Pattern: p, Slash: sl})
			}
		}
	}
	var rq7 []rsx.Req
	for _, p := range []string{"/a/q/b/r", "/a/q/b/r/", "/a/q/s/b/r", "/a/q/b/r/c/t", "/a/q", "/q/b/r/c/t", "/a/q/b/r/s"} {
		for _, m := range []string{"GET", "POST", "DELETE", "OPTIONS"} {
			rq7 = append(rq7, rsx.Req{Method: m, Path: p})
		}
	}
	runSpecs(c, r, "space.infix-then-wildcards", sp7, 2, rq7)
	runManyMethods(c, r)
}

// runManyMethods: routers with many methods (12…70 custom methods next to the standard ones: more method roots than
// any fixed-width bookkeeping of 8, 16, 32 or 64 entries holds), every method serving /a or /b (alternating) and every
// fifth one also /c: the Allow list names every serving method wherever its root sits.
func runManyMethods(c *mc.Ctx, r *mc.Result) {
	sizes := []int{12, 13, 16, 17, 29, 33, 61, 66, 70}
	r.Bounds["space.many-methods"] = fmt.Sprintf("routers with %v custom methods x 4 option profiles x 8 requests", sizes)
	for si, n := range sizes {
		if !c.Mine(si) {
			continue
		}
		var set []rsx.RouteSpec
		for k := 0; k < n; k++ {
			m := "M" + string(rune('A'+k/26)) + string(rune('A'+k%26))
			set = append(set, rsx.RouteSpec{Method: m, Pattern: []string{"/a", "/b"}[k%2]})
			if k%5 == 4 {
				set = append(set, rsx.RouteSpec{Method: m, Pattern: "/c", Slash: rsx.SlashIgnore})
			}
		}
		set = append(set, rsx.RouteSpec{Method: "GET", Pattern: "/a"})
		var rqs []rsx.Req
		for _, p := range []string{"/a", "/b", "/c/", "/d"} {
			for _, m := range []string{"DELETE", "OPTIONS"} {
				rqs = append(rqs, rsx.Req{Method: m, Path: p})
			}
		}
		for _, prof := range []rsx.Profile{{}, {NoMethod: true}, {AutoOptions: true}, {NoMethod: true, AutoOptions: true}} {
			e, err := build(set, prof, false)
			if err != nil {
				r.Violate("unserved", "error", fmt.Sprintf("a router with %d custom methods cannot be built: %v", n, err), Case{Set: set, Prof: prof})
				continue
			}
			r.States++
			for qi, rq := range rqs {
				_, _, class, msg := eval(e, rq)
				r.Evaluations++
				r.Transitions++
				r.DistinctNontrivial++
				if class != "" {
					if len(msg) > 1500 {
						msg = msg[:700] + " … " + msg[len(msg)-700:]
					}
					r.Violate("unserved", class, fmt.Sprintf("[%d custom methods] ", n)+msg, Case{Set: set, Prof: prof, Reqs: rqs[:qi+1]})
				}
			}
		}
	}
}

// viaUpdate selects BuildViaUpdate for the family being run (set by run only)
var viaUpdate bool

func runSpecs(c *mc.Ctx, r *mc.Result, name string, sp []rsx.RouteSpec, k int, rqs []rsx.Req) {
	// second pass in reverse order: every request then follows a different predecessor on the
	// recycled context
	seq := append(append([]rsx.Req{}, rqs...), reversed(rqs)...)
	profs := []rsx.Profile{{}, {NoMethod: true}, {AutoOptions: true}, {NoMethod: true, AutoOptions: true}}
	r.Bounds[name] = fmt.Sprintf("%d (method,pattern,slash) specs, subsets<=%d, x 4 option profiles x %d requests (forward and reverse order on one router)", len(sp), k, len(rqs))
	stopped := false
	rsx.Subsets(len(sp), k, func(i int, idx []int) {
		if !c.Mine(i) || stopped {
			return
		}
		if c.ExpiredEvery(64) {
			stopped = true
			r.NotExhaustive = append(r.NotExhaustive, fmt.Sprintf("time guard hit at subset #%d", i))
			return
		}
		set := make([]rsx.RouteSpec, 0, len(idx))
		for j, x := range idx {
			for _, y := range idx[:j] {
				if sp[y].Method == sp[x].Method && sp[y].Pattern == sp[x].Pattern {
					return
				}
			}
			set = append(set, sp[x])
		}
		for _, prof := range profs {
			e, err := build(set, prof, viaUpdate)
			if err != nil {
				r.Count("sets_rejected_by_router", 1)
				return
			}
			r.States++
			for qi, rq := range seq {
				abst, nontriv, class, msg := eval(e, rq)
				r.Evaluations++
				r.Transitions++
				if abst {
					r.Abstained++
				}
				if nontriv {
					r.DistinctNontrivial++
				}
				if class != "" {
					r.Violate("unserved", class, msg, Case{Set: set, Prof: prof, Reqs: seq[:qi+1], ViaUpdate: viaUpdate})
				}
			}
		}
		r.Count("sets", 1)
		if i < 2 {
			r.Sample(map[string]any{"set": rsx.SetString(set), "profiles": 4, "requests": len(seq)})
		}
	})
}

func reversed(in []rsx.Req) []rsx.Req {
	out := make([]rsx.Req, len(in))
	for i, x := range in {
		out[len(in)-1-i] = x
	}
	return out
}

func replay(c *mc.Ctx, raw json.RawMessage) string {
	var cs Case
	if err := json.Unmarshal(raw, &cs); err != nil {
		return "bad case: " + err.Error()
	}
	e, err := build(cs.Set, cs.Prof, cs.ViaUpdate)
	if err != nil {
		return ""
	}
	msg := ""
	for _, rq := range cs.Reqs {
		_, _, _, msg = eval(e, rq)
	}
	return msg
}

func init() {
	mc.Register(&mc.Check{
		ID:    "C11",
		Level: "exploration",
		Rule: "every subset (size<=K) of (method, pattern, slash option) triples over 5 methods (incl. CONNECT) x 11 patterns x 3 options, under each of the 4 (method-not-allowed, auto-OPTIONS) profiles, x every request of the alphabet (6 request methods, 2 hosts, paths of depth<=2 and '*'), requests issued in sequence on one router (forward then reverse order) with a deterministic context pool; " +
			"non-trivial = some method has a route serving the requested host and path (so 405/OPTIONS/Allow are in play)",
		Assumptions: []string{
			"serves(method) = reference direct match or reference trailing-slash match on a route that ignores trailing slashes (reference matcher as in C01/C08)",
			"whether OPTIONS itself is listed in the 405 Allow header when auto-OPTIONS is on is not decided by the statement; since the answer must depend only on the router options, a calibration router with the same options and the single route GET /cal decides, and every other 405 must make the same choice",
			"requests the reference considers served (route handler or redirect) are C08's business and skipped here",
		},
		WorkerInit: func() { mc.DeterministicPools() },
		Parts:      []mc.Part{{Name: "unserved", Run: run, Replay: replay}},
	})
}
