// Package c05: concurrent use is linearizable, never panics, never deadlocks.
package c05

import (
	"encoding/json"
	"fmt"
	"io"
	"net/http"
	"strings"

	"github.com/tigerwill90/fox"
	vs "github.com/tigerwill90/fox/verifsync"

	. "verifharness/conc"
	"verifharness/fx"
	"verifharness/mc"
)

func h(k, v int) Op            { return Op{Kind: Handle, Key: k, Ver: v} }
func u(k, v int) Op            { return Op{Kind: Update, Key: k, Ver: v} }
func hv(k, v int) Op           { return Op{Kind: Handle, Key: k, Ver: v, Via: true} }
func uv(k, v int) Op           { return Op{Kind: Update, Key: k, Ver: v, Via: true} }
func d(k int) Op               { return Op{Kind: Delete, Key: k} }
func rd(kind string, k int) Op { return Op{Kind: kind, Key: k} }

// Programs returns the hand-written scenarios (routes that share radix nodes).
func Programs() []*Program {
	return []*Program{
		{Name: "s1-handle-delete-reads", Init: State{1, 0, 0, 0, 0, 0}, Threads: [][]Op{
			{h(1, 2)}, {d(0)}, {rd(Has, 0), rd(Has, 1), rd(Serve, 0), rd(Serve, 1)}}},
		{Name: "s2-update-update-serve", Init: State{1, 1, 0, 0, 0, 0}, Threads: [][]Op{
			{u(0, 2)}, {u(0, 3)}, {rd(Serve, 0), rd(Serve, 0), rd(Route, 0)}}},
		{Name: "s3-txn-commit-vs-handle", Init: State{1, 0, 0, 0, 0, 0}, Threads: [][]Op{
			{{Kind: Txn, Commit: true, StepIn: true, Sub: []Op{h(2, 2), d(0)}}}, {h(1, 3)}, {{Kind: IterAll}, rd(Serve, 2), rd(Has, 0)}}},
		{Name: "s4-txn-abort-vs-delete-handle", Init: State{1, 0, 0, 0, 0, 0}, Threads: [][]Op{
			{{Kind: Txn, Commit: false, StepIn: true, Sub: []Op{u(0, 2), h(1, 2)}}}, {d(0), h(0, 3)}, {rd(Serve, 0), rd(Serve, 0), rd(Has, 1)}}},
		{Name: "s5-handle-same-key", Init: State{}, Threads: [][]Op{
			{h(0, 1)}, {h(0, 2)}, {rd(Has, 0), rd(Serve, 0)}}},
		{Name: "s6-hostname-and-custom-method", Init: State{1, 0, 0, 0, 0, 0}, Threads: [][]Op{
			{h(3, 2), d(3)}, {h(5, 3), d(5)}, {rd(Serve, 3), rd(Serve, 5), {Kind: IterAll}}}},
		{Name: "s7-updates-view-lookup", Init: State{1, 1, 0, 0, 0, 0}, Threads: [][]Op{
			{{Kind: Txn, Commit: true, StepIn: true, Sub: []Op{d(0), d(1), h(2, 5)}}},
			{{Kind: View, StepIn: true, Sub: []Op{rd(Has, 0), rd(Has, 1), rd(Has, 2)}}},
			{rd(Lookup, 0), rd(Reverse, 2), {Kind: Len}}}},
		{Name: "s8-three-writers", Init: State{1, 0, 0, 0, 0, 0}, Threads: [][]Op{
			{h(1, 2), u(0, 2)}, {d(0), h(0, 3)}, {h(2, 4), d(2)}}},
	}
}

// Generated enumerates program families over small alphabets:
//
//	g1: all unordered pairs of single writer operations (incl. small transactions) x 2 initial sets, one reader;
//	g2: one writer running a two-operation transaction (every ordered pair of writes over keys 0..2,
//	    committed and aborted, scheduling points between the operations) against a reader, from every
//	    initial subset of keys 0..2.
func Generated(quick bool) []*Program {
	alpha := []Op{h(0, 2), h(1, 2), u(0, 3), d(0), d(1), h(2, 2),
		{Kind: Txn, Commit: true, Sub: []Op{d(0), h(1, 4)}}, {Kind: Txn, Commit: false, Sub: []Op{u(0, 5), h(2, 5)}}}
	var out []*Program
	for ii, init := range []State{{1, 0, 0, 0, 0, 0}, {1, 1, 1, 0, 0, 0}} {
		for i := range alpha {
			for j := i; j < len(alpha); j++ {
				a, b := alpha[i], alpha[j]
				if j == i {
					b.Ver += 10
					b.Sub = append([]Op(nil), b.Sub...)
					for k := range b.Sub {
						b.Sub[k].Ver += 10
					}
				}
				out = append(out, &Program{Name: fmt.Sprintf("g1-%d-%d-%d", ii, i, j), Init: init,
					Threads: [][]Op{{a}, {b}, {rd(Serve, 0), rd(Has, 1), {Kind: IterAll}}}})
			}
		}
	}
	var writes []Op
	for k := 0; k < 3; k++ {
		writes = append(writes, h(k, 7), u(k, 8), d(k))
	}
	for mask := 0; mask < 8; mask++ {
		var init State
		for k := 0; k < 3; k++ {
			if mask&(1<<k) != 0 {
				init[k] = 1
			}
		}
		for i, a := range writes {
			for j, b := range writes {
				if a.Key == b.Key && quick {
					continue // same-key pairs only in the thorough tier
				}
				b.Ver++
				for _, commit := range []bool{true, false} {
					out = append(out, &Program{Name: fmt.Sprintf("g2-%d-%d-%d-%v", mask, i, j, commit), Init: init,
						Threads: [][]Op{{{Kind: Txn, Commit: commit, StepIn: true, Sub: []Op{a, b}}},
							{rd(Serve, a.Key), rd(Serve, b.Key), {Kind: IterAll}}}})
				}
			}
		}
	}
	// g6: every pair of one-shot writer entry points of the router in which at least one goes through a
	// route object (NewRoute + HandleRoute / UpdateRoute), on different and on the same key
	forms := []Op{h(1, 2), hv(1, 2), u(0, 3), uv(0, 3), d(0), hv(2, 4), {Kind: Txn, End: EndUpdatesNil, Sub: []Op{uv(0, 5), hv(1, 5)}}}
	for i, a := range forms {
		for j := i; j < len(forms); j++ {
			b := forms[j]
			if !a.Via && !b.Via && a.Kind != Txn && b.Kind != Txn {
				continue
			}
			if j == i {
				b.Ver += 10
				b.Sub = append([]Op(nil), b.Sub...)
				for k := range b.Sub {
					b.Sub[k].Ver += 10
				}
			}
			out = append(out, &Program{Name: fmt.Sprintf("g6-%d-%d", i, j), Init: State{1, 0, 0, 0, 0, 0},
				Threads: [][]Op{{a}, {b}, {rd(Serve, 0), rd(Has, 1), {Kind: IterAll}}}})
		}
	}
	// g4: a request whose answer is computed from several lookups (405 Allow list) while a transaction
	// moves a route from one method to another: the answer must come from one committed state
	for wi, w := range []Op{
		{Kind: Txn, Commit: true, StepIn: true, Sub: []Op{d(0), h(4, 7)}},
		{Kind: Txn, Commit: true, StepIn: true, Sub: []Op{h(4, 7), d(0)}},
		{Kind: Txn, Commit: true, Sub: []Op{d(0), h(5, 7)}},
		h(4, 7), d(0)} {
		out = append(out, &Program{Name: fmt.Sprintf("g4-%d", wi), Init: State{1, 0, 0, 0, 0, 0}, Opts: noMethod,
			Threads: [][]Op{{w}, {rd(Allow, 0), rd(Allow, 0)}}})
	}
	// g5: concurrent readers only, on lookups that backtrack (scheduling points inside the lookup via
	// the tagged hooks): readers must not share scratch state
	bt := State{0, 0, 0, 0, 0, 0, 0, 0, 1, 1}
	readOps := []Op{rd(Reverse, 8), rd(Route, 8), rd(Has, 9), rd(Route, 0), rd(Reverse, 9), rd(Serve, 8), rd(Lookup, 8), rd(Reverse, 2)}
	for i, a := range readOps {
		for j, b := range readOps {
			out = append(out, &Program{Name: fmt.Sprintf("g5-%d-%d", i, j), Init: bt, Threads: [][]Op{{a}, {b, a}}})
		}
	}
	// g3: a fourth sibling inserted under a node that got its third child by plain insertion; the
	// new child sorts before the existing ones. Writers: direct, committed and aborted transactions.
	sib := State{0, 1, 0, 0, 0, 0, 1, 1} // /ab, /ac, /ad
	for wi, w := range []Op{h(2, 7), h(0, 7),
		{Kind: Txn, Commit: true, StepIn: true, Sub: []Op{h(2, 7), d(1)}},
		{Kind: Txn, Commit: false, StepIn: true, Sub: []Op{h(2, 7), u(6, 8)}}} {
		out = append(out, &Program{Name: fmt.Sprintf("g3-%d", wi), Init: sib,
			Threads: [][]Op{{w}, {rd(Serve, 1), rd(Serve, 7), {Kind: IterAll}, rd(Has, 6)}}})
	}
	return out
}

func noMethod() []fox.GlobalOption { return []fox.GlobalOption{fox.WithNoMethod(true)} }

func all() []*mc.Scenario {
	var scs []*mc.Scenario
	for _, p := range Programs() {
		scs = append(scs, LinScenario(p))
	}
	for _, p := range Generated(false) {
		scs = append(scs, LinScenario(p))
	}
	return scs
}

// ---------------------------------------------------------------------------------------------
// serving: concurrent requests that write responses (package-level buffers and pools on that path)
// ---------------------------------------------------------------------------------------------

// stepRW is an underlying writer without any optional interface; every Write is a scheduling point.
type stepRW struct{ rw *fx.RW }

func (s stepRW) Header() http.Header { return s.rw.Header() }
func (s stepRW) WriteHeader(c int)   { s.rw.WriteHeader(c) }
func (s stepRW) Write(p []byte) (int, error) {
	vs.Step("underlying Write")
	// copy now: the caller may reuse p
	return s.rw.Write(append([]byte(nil), p...))
}

// stepReader yields n bytes of one letter in chunks, with a scheduling point before every Read.
type stepReader struct {
	b     byte
	left  int
	chunk int
}

func (r *stepReader) Read(p []byte) (int, error) {
	vs.Step("source Read")
	if r.left == 0 {
		return 0, io.EOF
	}
	n := min(r.chunk, r.left, len(p))
	for i := 0; i < n; i++ {
		p[i] = r.b
	}
	r.left -= n
	return n, nil
}

var serveKinds = []string{"Stream", "io.Copy", "String", "Blob", "Write"}

func serveScenario(k0, k1 string) *mc.Scenario {
	return &mc.Scenario{
		Name:     "serving " + k0 + " || " + k1,
		Describe: "two threads each serve one request whose handler sends 6 bytes of its own letter through " + k0 + " / " + k1 + " on an underlying writer without optional interfaces; scheduling points at every source Read and underlying Write",
		Build: func() *mc.Instance {
			f, err := fox.New()
			if err != nil {
				panic(err)
			}
			f.MustHandle("GET", "/s/{kind}/{letter}", func(c fox.Context) {
				b := c.Param("letter")[0]
				switch c.Param("kind") {
				case "Stream":
					c.Stream(200, "text/plain", &stepReader{b: b, left: 6, chunk: 2})
				case "io.Copy":
					io.Copy(c.Writer(), &stepReader{b: b, left: 6, chunk: 2})
				case "String":
					c.String(200, "%s", strings.Repeat(string(b), 6))
				case "Blob":
					c.Blob(200, "text/plain", []byte(strings.Repeat(string(b), 6)))
				case "Write":
					for i := 0; i < 3; i++ {
						c.Writer().Write([]byte{b, b})
					}
				}
			})
			rws := []*fx.RW{fx.NewRW(), fx.NewRW()}
			serve := func(i int, kind, letter string) func() {
				return func() { f.ServeHTTP(stepRW{rws[i]}, fx.Req("GET", "", "/s/"+kind+"/"+letter)) }
			}
			return &mc.Instance{
				Bodies: []func(){serve(0, k0, "A"), serve(1, k1, "B")},
				Check: func(x *mc.Exec) (string, string, string) {
					if x.S.Deadlock {
						return "deadlock", "deadlock", x.S.DeadInfo
					}
					for t := 0; t < 2; t++ {
						if pv, stk := x.S.PanicOf(t); pv != nil {
							return "panic", "panic", fmt.Sprintf("thread %d: %v\n%s", t, pv, mc.NormStack(stk, 10))
						}
					}
					for i, want := range []string{"AAAAAA", "BBBBBB"} {
						if string(rws[i].Body) != want || rws[i].Code != 200 {
							return "mixed", "response-mixes-requests", fmt.Sprintf("request %d received status %d body %q, want 200 %q", i, rws[i].Code, rws[i].Body, want)
						}
					}
					return "ok", "", ""
				},
			}
		},
	}
}

// registerScenario: two threads register routes that carry route middleware, on a router with
// nGlobal router-wide middleware (spare capacity in the shared list at 3, 5, 6); one goes through
// Handle (writer lock held), the other through the lock-free NewRoute followed by HandleRoute.
func registerScenario(nGlobal int) *mc.Scenario {
	return &mc.Scenario{
		Name:     fmt.Sprintf("registering routes with middleware, %d global middleware", nGlobal),
		Describe: "Handle(/x0, WithMiddleware(m0)) || NewRoute(/x1, WithMiddleware(m1)) + HandleRoute; scheduling points at the hooks inside NewRoute; afterwards each route must run the global middleware, its own middleware and its own handler",
		Build: func() *mc.Instance {
			var trace []string
			mw := func(id string) fox.MiddlewareFunc {
				return func(n fox.HandlerFunc) fox.HandlerFunc {
					return func(c fox.Context) { trace = append(trace, id); n(c) }
				}
			}
			var opts []fox.GlobalOption
			var want []string
			for i := 0; i < nGlobal; i++ {
				opts = append(opts, fox.WithMiddleware(mw(fmt.Sprintf("g%d", i))))
				want = append(want, fmt.Sprintf("g%d", i))
			}
			f, err := fox.New(opts...)
			if err != nil {
				panic(err)
			}
			hd := func(id string) fox.HandlerFunc { return func(fox.Context) { trace = append(trace, id) } }
			errs := make([]error, 2)
			return &mc.Instance{
				Bodies: []func(){
					func() { _, errs[0] = f.Handle("GET", "/x0", hd("h0"), fox.WithMiddleware(mw("m0"))) },
					func() {
						rt, err := f.NewRoute("/x1", hd("h1"), fox.WithMiddleware(mw("m1")))
						if err == nil {
							err = f.HandleRoute("GET", rt)
						}
						errs[1] = err
					},
				},
				Check: func(x *mc.Exec) (string, string, string) {
					if x.S.Deadlock {
						return "deadlock", "deadlock", x.S.DeadInfo
					}
					for t := 0; t < 2; t++ {
						if pv, stk := x.S.PanicOf(t); pv != nil {
							return "panic", "panic", fmt.Sprintf("thread %d: %v\n%s", t, pv, mc.NormStack(stk, 10))
						}
						if errs[t] != nil {
							return "error", "write-lost", fmt.Sprintf("registration %d failed: %v", t, errs[t])
						}
					}
					for i := 0; i < 2; i++ {
						trace = nil
						f.ServeHTTP(fx.NewRW(), fx.Req("GET", "", fmt.Sprintf("/x%d", i)))
						w := strings.Join(append(append([]string{}, want...), fmt.Sprintf("m%d", i), fmt.Sprintf("h%d", i)), ",")
						if got := strings.Join(trace, ","); got != w {
							return "mixed", "route-mixes-registrations", fmt.Sprintf("GET /x%d ran [%s], want [%s]", i, got, w)
						}
					}
					return "ok", "", ""
				},
			}
		},
	}
}

// handleMiddlewareScenario: two threads resolve the same route and run Route.HandleMiddleware (and
// Route.Handle / ServeHTTP) at the same time; the route is shared and must behave as immutable: each
// call runs the route middleware exactly once around the handler.
func handleMiddlewareScenario(entry string) *mc.Scenario {
	return &mc.Scenario{
		Name:     "two threads running " + entry + " of one route",
		Describe: "a route with two route-specific middleware whose constructors and bodies are scheduling points; both threads call " + entry,
		Build: func() *mc.Instance {
			traces := make([][]string, 2)
			mw := func(id string) fox.MiddlewareFunc {
				return func(n fox.HandlerFunc) fox.HandlerFunc {
					vs.Step("middleware constructor")
					return func(c fox.Context) {
						t := vs.ThreadID()
						traces[t] = append(traces[t], id)
						vs.Step("middleware body")
						n(c)
					}
				}
			}
			f, err := fox.New()
			if err != nil {
				panic(err)
			}
			f.MustHandle("GET", "/r/{x}", func(c fox.Context) {
				t := vs.ThreadID()
				traces[t] = append(traces[t], "h")
			}, fox.WithMiddleware(mw("m1"), mw("m2")))
			body := func() {
				switch entry {
				case "Route.HandleMiddleware":
					rt, cc, _ := f.Lookup(fx.WrapRW(fx.NewRW()), fx.Req("GET", "", "/r/v"))
					if rt != nil {
						rt.HandleMiddleware(cc)
						cc.Close()
					}
				case "Route.Handle":
					rt, cc, _ := f.Lookup(fx.WrapRW(fx.NewRW()), fx.Req("GET", "", "/r/v"))
					if rt != nil {
						rt.Handle(cc)
						cc.Close()
					}
				default:
					f.ServeHTTP(fx.NewRW(), fx.Req("GET", "", "/r/v"))
				}
			}
			want := "m1,m2,h"
			if entry == "Route.Handle" {
				want = "h"
			}
			return &mc.Instance{
				Bodies: []func(){body, body},
				Check: func(x *mc.Exec) (string, string, string) {
					if x.S.Deadlock {
						return "deadlock", "deadlock", x.S.DeadInfo
					}
					for t := 0; t < 2; t++ {
						if pv, stk := x.S.PanicOf(t); pv != nil {
							return "panic", "panic", fmt.Sprintf("thread %d: %v\n%s", t, pv, mc.NormStack(stk, 10))
						}
						if got := strings.Join(traces[t], ","); got != want {
							return "mixed", "route-chain-broken", fmt.Sprintf("thread %d ran [%s] through %s, want [%s]", t, got, entry, want)
						}
					}
					return "ok", "", ""
				},
			}
		},
	}
}

// sharedSequenceScenario: one sequence value obtained from an Iter (documented as safe for concurrent use) is
// ranged over by two threads at the same time, with a scheduling point in every loop body: each thread must
// see exactly what a lone pass sees.
func sharedSequenceScenario(kind string) *mc.Scenario {
	return &mc.Scenario{
		Name:     "two threads ranging over one " + kind + " sequence value",
		Describe: "routes GET /a /b /c/d /c/e, POST /p; seq := Iter()." + kind + " taken once; both threads range over seq with a scheduling point per element",
		Build: func() *mc.Instance {
			f, err := fox.New()
			if err != nil {
				panic(err)
			}
			for _, p := range []string{"/a", "/b", "/c/d", "/c/e"} {
				f.MustHandle("GET", p, fx.VerHandler(1))
			}
			f.MustHandle("POST", "/p", fx.VerHandler(1))
			it := f.Iter()
			var run func(visit func(string))
			switch kind {
			case "Methods":
				seq := it.Methods()
				run = func(visit func(string)) {
					for m := range seq {
						visit(m)
					}
				}
			default:
				var seq func(func(string, *fox.Route) bool)
				switch kind {
				case "All":
					seq = it.All()
				case "Prefix":
					seq = it.Prefix(it.Methods(), "/")
				case "Routes":
					seq = it.Routes(it.Methods(), "/c/d")
				case "Reverse":
					seq = it.Reverse(it.Methods(), "", "/c/e")
				}
				run = func(visit func(string)) {
					for m, rt := range seq {
						visit(m + " " + rt.Pattern())
					}
				}
			}
			var want []string
			run(func(s string) { want = append(want, s) })
			got := make([][]string, 2)
			body := func(t int) func() {
				return func() {
					run(func(s string) {
						got[t] = append(got[t], s)
						vs.Step("loop body")
					})
				}
			}
			return &mc.Instance{
				Bodies: []func(){body(0), body(1)},
				Check: func(x *mc.Exec) (string, string, string) {
					if x.S.Deadlock {
						return "deadlock", "deadlock", x.S.DeadInfo
					}
					for t := 0; t < 2; t++ {
						if pv, stk := x.S.PanicOf(t); pv != nil {
							return "panic", "panic", fmt.Sprintf("thread %d: %v\n%s", t, pv, mc.NormStack(stk, 10))
						}
						if strings.Join(got[t], ",") != strings.Join(want, ",") {
							return "mixed", "shared-sequence-broken", fmt.Sprintf("thread %d saw [%s] ranging over the shared %s sequence, a lone pass sees [%s]", t, strings.Join(got[t], ","), kind, strings.Join(want, ","))
						}
					}
					return "ok", "", ""
				},
			}
		},
	}
}

func serveScenarios() []*mc.Scenario {
	var out []*mc.Scenario
	for _, n := range []int{0, 3, 5, 6} {
		out = append(out, registerScenario(n))
	}
	for _, e := range []string{"Route.HandleMiddleware", "Route.Handle", "ServeHTTP"} {
		out = append(out, handleMiddlewareScenario(e))
	}
	for _, k := range []string{"All", "Prefix", "Routes", "Reverse", "Methods"} {
		out = append(out, sharedSequenceScenario(k))
	}
	for i, a := range serveKinds {
		for _, b := range serveKinds[i:] {
			out = append(out, serveScenario(a, b))
		}
	}
	return out
}

func init() {
	mc.Register(&mc.Check{
		ID:    "C05",
		Level: "model_checking",
		Rule: "every thread interleaving (scheduling points at every mutex, atomic-pointer and pool operation of fox and between harness operations) of each closed 3-thread program, up to the stated preemption bound; " +
			"distinct_nontrivial = number of distinct (scenario, observable outcome) classes; states = visited (execution, position) pairs, transitions = scheduling decisions",
		Assumptions: []string{
			"sync/atomic operations are sequentially consistent (Go memory model); scheduling at synchronisation operations is complete provided there is no data race (separate free-running -race pass)",
			"shim fidelity to sync.Mutex / atomic.Pointer / sync.Pool semantics",
			"porcupine linearizability checker; map model of (method,pattern)->version",
		},
		Parts: []mc.Part{{
			Name: "lin",
			Run: func(c *mc.Ctx, r *mc.Result) {
				hand := Programs()
				for i, p := range hand {
					sc := LinScenario(p)
					bound := 2
					if !c.Quick() {
						bound = 3
					}
					_ = i
					mc.Explore(c, r, "lin", sc, mc.ExploreOpts{Bound: bound})
				}
				gen := Generated(c.Quick())
				for _, p := range gen {
					bound := 1
					if !c.Quick() {
						bound = 2
					}
					mc.Explore(c, r, "lin", LinScenario(p), mc.ExploreOpts{Bound: bound})
				}
				mc.CountNontrivial(r)
			},
			Replay: func(c *mc.Ctx, cs json.RawMessage) string { return mc.ReplaySched(all(), cs) },
		}, {
			Name: "serving",
			Run: func(c *mc.Ctx, r *mc.Result) {
				bound := 3
				if c.Quick() {
					bound = 2
				}
				for _, sc := range serveScenarios() {
					mc.Explore(c, r, "serving", sc, mc.ExploreOpts{Bound: bound})
				}
			},
			Replay: func(c *mc.Ctx, cs json.RawMessage) string { return mc.ReplaySched(serveScenarios(), cs) },
		}},
	})
}
