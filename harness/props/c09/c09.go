// Package c09: hostname routes match the whole host, path-only routes are the fallback.
package c09

import (
	"encoding/json"
	"fmt"
	"sort"
	"strings"

	"verifharness/mc"
	"verifharness/ref"
	"verifharness/rsx"
)

// Case is a replayable C09 case.
type Case struct {
	Set []rsx.RouteSpec `json:"set"`
	Req rsx.Req         `json:"req"`
	// Extra, when set, is registered (first when ExtraFirst) next to Set and deleted again before
	// the request: the registered set is Set, the tree went through an insertion and a removal.
	Extra      string `json:"extra,omitempty"`
	ExtraFirst bool   `json:"extra_first,omitempty"`
	// Aborted: Extra was registered inside a write transaction that was aborted (instead of registered
	// and deleted)
	Aborted bool `json:"aborted,omitempty"`
	// Allow: case of the hosts-allow part (405 + automatic OPTIONS router)
	Allow bool `json:"allow,omitempty"`
	// Before: patterns registered before Set and deleted after it (part hosts-after-history)
	Before []string `json:"before,omitempty"`
}

// buildAfterHistory registers the patterns of before, then set, then deletes the patterns of before.
func buildAfterHistory(set []rsx.RouteSpec, before []string) (*rsx.Env, error) {
	e := rsx.NewEnv(rsx.Profile{})
	e.Set = set
	for k, p := range before {
		if _, err := e.F.Handle("GET", p, e.Handler(len(set)+k)); err != nil {
			return nil, err
		}
	}
	for i, sp := range set {
		rt, err := e.F.Handle(sp.Method, sp.Pattern, e.Handler(i), rsx.RouteOpts(i, sp)...)
		if err != nil {
			return nil, err
		}
		e.Routes = append(e.Routes, rt)
	}
	for _, p := range before {
		if _, err := e.F.Delete("GET", p); err != nil {
			return nil, err
		}
	}
	e.BuildRef()
	return e, nil
}

// runAfterHistory: routers whose hostname tree was shaped by routes that are gone: two patterns registered first,
// the set registered on top of the nodes they created (a route landing exactly on a split node, below it, next to
// it), then the two deleted. Pool: paths that share prefixes (/a, /ab, /ac, /) under a static and a parameter
// hostname, plus path-only twins.
func runAfterHistory(c *mc.Ctx, r *mc.Result) {
	var pats []string
	for _, h := range []string{"a.b", "{h}.b", ""} {
		for _, p := range []string{"/", "/a", "/ab", "/ac"} {
			pats = append(pats, h+p)
		}
	}
	hosts := []string{"", "a.b", "x.b", "a.b:80", "a.b.", "b", "a.c"}
	paths := []string{"/", "/a", "/ab", "/ac", "/b", "/a/"}
	r.Bounds["history"] = fmt.Sprintf("%d patterns: every set of <=2 x every ordered list of <=2 other patterns registered before it and deleted after it x %d hosts x %d paths", len(pats), len(hosts), len(paths))
	n := 0
	rsx.Subsets(len(pats), 2, func(i int, idx []int) {
		in := map[int]bool{}
		set := make([]rsx.RouteSpec, 0, len(idx))
		for _, j := range idx {
			in[j] = true
			set = append(set, rsx.RouteSpec{Method: "GET", Pattern: pats[j]})
		}
		var befores [][]string
		for a := range pats {
			if in[a] {
				continue
			}
			befores = append(befores, []string{pats[a]})
			for b := range pats {
				if b != a && !in[b] {
					befores = append(befores, []string{pats[a], pats[b]})
				}
			}
		}
		for _, before := range befores {
			n++
			if !c.Mine(n) {
				continue
			}
			e, err := buildAfterHistory(set, before)
			if err != nil {
				r.Count("histories_rejected_by_router", 1)
				continue
			}
			r.States++
			for _, h := range hosts {
				for _, p := range paths {
					rq := rsx.Req{Method: "GET", Host: h, Path: p}
					abst, nontriv, class, msg := eval(e, rq)
					r.Evaluations++
					r.Transitions++
					if abst {
						r.Abstained++
					}
					if nontriv {
						r.DistinctNontrivial++
					}
					if class != "" {
						r.Violate("hosts-after-history", class, fmt.Sprintf("[%v registered before the set and deleted after it] ", before)+msg, Case{Set: set, Req: rq, Before: before})
					}
				}
			}
		}
	})
}

func buildAfterDelete(set []rsx.RouteSpec, extra string, first bool) (*rsx.Env, error) {
	return rsx.BuildAfterDelete(set, "GET", extra, first, rsx.Profile{})
}

// hostMatches reports whether the (stripped) request host equals the host pattern label for
// label, each {param} standing for one non-empty dot-free label part.
func hostMatches(pat *ref.Pattern, host string) bool {
	if strings.Contains(host, "/") {
		return false // no hostname, and no label part, contains a slash
	}
	var rec func(ti, pos int) bool
	rec = func(ti, pos int) bool {
		if ti == len(pat.HostToks) {
			return pos == len(host)
		}
		t := pat.HostToks[ti]
		if t.Kind == ref.Static {
			return pos < len(host) && host[pos] == t.Lit && rec(ti+1, pos+1)
		}
		// one non-empty dot-free label part: up to the next dot or the end
		end := strings.IndexByte(host[pos:], '.')
		if end < 0 {
			end = len(host)
		} else {
			end += pos
		}
		return end > pos && rec(ti+1, end)
	}
	return rec(0, 0)
}

func allHosts(maxLen int) []string {
	var out []string
	var rec func(cur string)
	rec = func(cur string) {
		if cur != "" {
			out = append(out, cur)
		}
		if len(cur) == maxLen {
			return
		}
		for _, c := range "ab.1" {
			rec(cur + string(c))
		}
	}
	rec("")
	return out
}

var structured = []string{"", "a.b:80", "a.b.", "a.b.:80", "a.b..", "b.a.b:8080", "x.b", "a.x", "1.2.3.4", "1.2.3.4:80", "[::1]:80", "[::1]", "::1", "a.b:", "a.b:x", ":80", "A.B", "a.b:80:80", "b.a.b.", "ab.b:1", ".", "..", "a.b-c", "a.b.c", "a.b-", "a.b-c:80", "a.b.c.", "{x}.b", "{h}.b", "{.b", "a.{t}", "a.{", "a{m}.b", "a{.b", "{h}.{t}", "}.b", "{x}.b:80",
	// a slash inside the Host (the root edge of a path-only tree is a '/' edge too)
	"/", "/a", "/a/", "/a/b", "a/", "a.b/a", "/b", "/a:80", "/a."}

func patterns() []string {
	var pats []string
	for _, h := range []string{"a.b", "b.a.b", "{h}.b", "a.{t}", "a{m}.b", "{h}.{t}", "1.{t}"} {
		for _, p := range []string{"/", "/a", "/a/", "/{p0}", "/*{c0}"} {
			pats = append(pats, h+p)
		}
	}
	return append(pats, "/", "/a", "/a/", "/{p0}", "/*{c0}")
}

var structuredSet = func() map[string]bool {
	m := map[string]bool{}
	for _, h := range structured {
		m[h] = true
	}
	return m
}()

// eval checks the host-related obligations for one request.
func eval(e *rsx.Env, rq rsx.Req) (bool, bool, string, string) {
	o := e.Observe(rq)
	if o.Panic != "" {
		return false, true, "panic", "panic: " + o.Panic
	}
	hdr := func() string {
		return fmt.Sprintf("set %s request %s (host %q)\n    observed: %s", rsx.SetString(e.Set), rq, rq.Host, o)
	}
	// the transaction views (a read-only Txn, a write Txn holding the same routes uncommitted) must resolve the
	// Host exactly like the router; checked on the structured hosts (ports, trailing dots, literals, braces)
	if e.Views != nil && structuredSet[rq.Host] {
		if d := e.Views.Disagree(rq, &o); d != "" {
			return false, true, "txn-disagree", d + ", the router answers differently: " + hdr()
		}
	}
	stripped := ref.StripHost(rq.Host)
	m := e.Ref[rq.Method]
	methodHasHost := m != nil && m.HasHost()
	// which hostname routes of this method have a host pattern equal to the request host?
	anyHostMatch := false
	for i, rr := range e.RRoutes {
		if e.Set[i].Method == rq.Method && rr.Pat.HostLen > 0 && hostMatches(rr.Pat, stripped) {
			anyHostMatch = true
		}
	}
	nontrivial := methodHasHost && (anyHostMatch || strings.Contains(stripped, "b"))
	// (1) a selected hostname route must match the whole host
	for _, id := range []int{o.RevID, o.LkID, o.ItID, o.Cap.Handler} {
		if id > 0 && e.RRoutes[id-1].Pat.HostLen > 0 && !hostMatches(e.RRoutes[id-1].Pat, stripped) {
			return false, nontrivial, "host-partial-match", fmt.Sprintf("hostname route %q selected although the request host %q (stripped %q) does not equal its hostname pattern label for label: %s", e.RRoutes[id-1].Pat.Raw, rq.Host, stripped, hdr())
		}
	}
	// host parameter values must reproduce the host
	if o.LkID > 0 && e.RRoutes[o.LkID-1].Pat.HostLen > 0 {
		pat := e.RRoutes[o.LkID-1].Pat
		i := 0
		var sb strings.Builder
		ok := true
		for _, t := range pat.HostToks {
			if t.Kind == ref.Static {
				sb.WriteByte(t.Lit)
				continue
			}
			if i >= len(o.LkParams) || o.LkParams[i].K != t.Name || o.LkParams[i].V == "" || strings.Contains(o.LkParams[i].V, ".") {
				ok = false
				break
			}
			sb.WriteString(o.LkParams[i].V)
			i++
		}
		if !ok || sb.String() != stripped {
			return false, nontrivial, "host-params", fmt.Sprintf("host parameter values do not reproduce the request host %q: %s", stripped, hdr())
		}
	}
	// (2)/(3) fallback: when no hostname route's host equals the request host (or the method has no
	// hostname route at all), the answer must be exactly the answer for an empty Host
	if !anyHostMatch && rq.Host != "" {
		rq0 := rq
		rq0.Host = ""
		o0 := e.Observe(rq0)
		if o0.RevID != o.RevID || o0.RevTsr != o.RevTsr || o0.LkID != o.LkID || !rsx.SameKV(o0.LkParams, o.LkParams) || o0.Status != o.Status || o0.Cap.Handler != o.Cap.Handler || !rsx.SameKV(o0.Cap.Params, o.Cap.Params) || o0.ItID != o.ItID {
			cls := "fallback-differs"
			if !methodHasHost {
				cls = "host-not-ignored"
			}
			return false, nontrivial, cls, fmt.Sprintf("no hostname route matches host %q, yet the answer differs from the path-only answer (%s): %s", rq.Host, o0, hdr())
		}
	}
	// (4) when the reference finds a direct match under a matching host, it must be selected
	want, decided := e.RefLookup(rq.Method, rq.Host, rq.MatchPath())
	if decided && want.Route != nil && !want.Tsr && want.Route.Pat.HostLen > 0 && !e.GrayPrefixedCatchAll(o.LkID, o.LkParams) {
		if o.RevID != want.Route.ID || o.RevTsr || !rsx.SameKV(o.LkParams, want.Params) || o.Cap.Handler != want.Route.ID {
			return false, nontrivial, "host-route-not-used", fmt.Sprintf("reference selects hostname route %d %s [%s] directly: %s", want.Route.ID, want.Route.Pat.Raw, rsx.KVString(want.Params), hdr())
		}
	}
	// (5) when some hostname route matches the host but none of them matches the path in any
	// slash variant, the path-only answer must be used
	if anyHostMatch && decided {
		hostTreeInvolved := false
		for i, rr := range e.RRoutes {
			if e.Set[i].Method != rq.Method || rr.Pat.HostLen == 0 || !hostMatches(rr.Pat, stripped) {
				continue
			}
			if e.Single[i].Lookup(rq.Host, rq.MatchPath()).Route != nil {
				hostTreeInvolved = true
			}
		}
		if !hostTreeInvolved {
			rq0 := rq
			rq0.Host = ""
			o0 := e.Observe(rq0)
			// with Host="" the hostname tree is skipped entirely
			if o0.RevID != o.RevID || o0.RevTsr != o.RevTsr || !rsx.SameKV(o0.LkParams, o.LkParams) || o0.Cap.Handler != o.Cap.Handler || o0.Status != o.Status {
				return false, nontrivial, "fallback-differs", fmt.Sprintf("hostname routes match host %q but not the path (nor its slash-adjusted form); the path-only answer (%s) must be used: %s", rq.Host, o0, hdr())
			}
		}
	}
	return false, nontrivial, "", ""
}

func run(c *mc.Ctx, r *mc.Result) {
	runWith(c, r, "pool", nil)
	// the same with two fixed hostname routes whose hosts extend "a.b" by '-' and by '.': the node that
	// ends the host "a.b" then has the edges '-', '.' and '/' (three children sorting around '/')
	runWith(c, r, "pool.siblings", []string{"a.b-c/a", "a.b.c/a"})
	// and with two fixed hostname routes whose static edges start like a shorter Host but are longer than what
	// is left of it ("ab.b" against the Host "a.b" next to {h}.b, "a.bb" next to a.{t}): the static edge cannot
	// be consumed, the parameter alternative of the same node must still be tried
	runWith(c, r, "pool.long-edge", []string{"ab.b/a", "a.bb/a"})
	runLong(c, r)
}

// runLong: hostnames at and beyond the usual length limits. The router accepts static hostnames up to 255 bytes
// and does not count {param} placeholders, so Hosts of 250..260 bytes can equal a registered pattern label for
// label; they must select it like any other Host (and near misses must not).
func runLong(c *mc.Ctx, r *mc.Result) {
	if c.Shard != 0 {
		return
	}
	label := func(n int, ch byte) string { return strings.Repeat(string(ch), n) }
	var sets [][]string
	var hosts []string
	for _, total := range []int{250, 253, 254, 255} {
		// four labels, the last one sized to reach the total
		h := label(63, 'a') + "." + label(63, 'b') + "." + label(63, 'c') + "." + label(total-192, 'd')
		sets = append(sets, []string{h + "/", "/"}, []string{h + "/a", h + "/", "/a"})
		hosts = append(hosts, h, h+":8080", h+".", h+".:80", h[:len(h)-1], h+"d", "x"+h[1:])
	}
	sets = append(sets, []string{"{a}.{b}.{c}.{d}.b/", "/"}, []string{"{a}.{b}.{c}.{d}/a", "/a", "/"})
	for _, last := range []int{57, 58, 59, 60, 63} {
		h := label(63, 'a') + "." + label(63, 'b') + "." + label(63, 'c') + "." + label(last, 'd')
		hosts = append(hosts, h, h+".b", h+".b:80", h+".b.", h+".c")
	}
	// deep hostname trees: at every one of d levels a static label and a {param} sibling (whose branch fails), the
	// all-static branch fails at the very end, and the matching route is reached through the deepest parameter: the
	// walk has d pending alternatives at once
	for d := 2; d <= 12; d++ {
		var labels []string
		for i := 1; i <= d; i++ {
			labels = append(labels, fmt.Sprintf("s%d", i))
		}
		pats := []string{strings.Join(labels, ".") + ".end/", strings.Join(labels[:d-1], ".") + ".{p}.fin/", "/"}
		if d == 2 {
			pats[1] = labels[0] + ".{p}.fin/"
		}
		for i := 0; i < d-1; i++ {
			pats = append(pats, strings.Join(append(append([]string{}, labels[:i]...), "{p}", "q"), ".")+"/")
		}
		sets = append(sets, pats)
		full := strings.Join(labels, ".")
		hosts = append(hosts, full+".fin", full+".end", full+".fin:80", full+".q", strings.Join(labels[:d-1], ".")+".zz.fin", full+".fi")
	}
	r.Bounds["long"] = fmt.Sprintf("%d route sets with hostnames of 250..255 bytes and four-parameter hostnames, plus hostname trees of depth 2..12 with a static and a parameter alternative at every level, x %d Hosts (249..260 bytes: exact, port, trailing dot, one byte short/long/different; deep hosts reaching their route through the deepest alternative) x paths / and /a", len(sets), len(hosts))
	for _, pats := range sets {
		var set []rsx.RouteSpec
		for _, p := range pats {
			set = append(set, rsx.RouteSpec{Method: "GET", Pattern: p})
		}
		e, err := rsx.Build(set, rsx.Profile{})
		if err != nil {
			r.Count("sets_rejected_by_router", 1)
			continue
		}
		r.States++
		for _, h := range hosts {
			for _, p := range []string{"/", "/a"} {
				rq := rsx.Req{Method: "GET", Host: h, Path: p}
				abst, nontriv, class, msg := eval(e, rq)
				r.Evaluations++
				if abst {
					r.Abstained++
				}
				if nontriv {
					r.DistinctNontrivial++
				}
				if class != "" {
					r.Violate("hosts", class, msg, Case{Set: set, Req: rq})
				}
			}
		}
	}
}

func runWith(c *mc.Ctx, r *mc.Result, boundName string, always []string) {
	pats := patterns()
	k := 3
	hostLen := 5
	if c.Quick() {
		k = 2
		hostLen = 4
	}
	hosts := append(allHosts(hostLen), structured...)
	if always != nil {
		// fewer generated hosts in this pass: the fixed routes add nothing for most of them
		hosts = append(allHosts(3), structured...)
	}
	paths := rsx.GenPaths([]string{"a", "b"}, 2)
	r.Bounds[boundName] = fmt.Sprintf("%d patterns (+%d fixed), subsets<=%d, all hosts of length<=%d over {a,b,1,.} (%d) + %d structured, %d paths", len(pats), len(always), k, hostLen, len(hosts)-len(structured), len(structured), len(paths))
	stopped := false
	rsx.Subsets(len(pats), k, func(i int, idx []int) {
		if !c.Mine(i) || stopped {
			return
		}
		if c.ExpiredEvery(64) {
			stopped = true
			r.NotExhaustive = append(r.NotExhaustive, fmt.Sprintf("time guard hit at subset #%d", i))
			return
		}
		set := make([]rsx.RouteSpec, 0, len(idx))
		for _, j := range idx {
			set = append(set, rsx.RouteSpec{Method: "GET", Pattern: pats[j]})
		}
		for _, a := range always {
			set = append(set, rsx.RouteSpec{Method: "GET", Pattern: a})
		}
		e, err := rsx.Build(set, rsx.Profile{})
		if err != nil {
			r.Count("sets_rejected_by_router", 1)
			return
		}
		r.Count("sets", 1)
		r.States++
		if err := e.WithViews(); err != nil {
			r.Violate("hosts", "txn-disagree", err.Error()+" set "+rsx.SetString(set), Case{Set: set})
			return
		}
		defer e.Done()
		for _, h := range hosts {
			for _, p := range paths {
				rq := rsx.Req{Method: "GET", Host: h, Path: p}
				abst, nontriv, class, msg := eval(e, rq)
				r.Evaluations++
				r.Transitions++
				if abst {
					r.Abstained++
				}
				if nontriv {
					r.DistinctNontrivial++
				}
				if class != "" {
					r.Violate("hosts", class, msg, Case{Set: set, Req: rq})
				}
			}
		}
		if i < 2 {
			r.Sample(map[string]any{"set": rsx.SetString(set), "hosts": len(hosts), "paths": len(paths)})
		}
	})
}

// runAfterDelete: the same obligations on routers whose tree went through the insertion and the
// removal of one more route (node splits and merges in the hostname tree).
func runAfterDelete(c *mc.Ctx, r *mc.Result) {
	pats := patterns()
	var extras []string
	hostLen := 4
	orders := []bool{false, true}
	if c.Quick() {
		hostLen = 3
		orders = []bool{false}
		for _, h := range []string{"a.b", "b.a.b", "{h}.b", "a.{t}", "a{m}.b", "{h}.{t}", "1.{t}"} {
			extras = append(extras, h+"/a", h+"/{p0}")
		}
		extras = append(extras, "/a")
	} else {
		extras = pats
	}
	hosts := append(allHosts(hostLen), structured...)
	paths := rsx.GenPaths([]string{"a", "b"}, 2)
	r.Bounds["pool"] = fmt.Sprintf("%d patterns, subsets<=2, x %d extra patterns registered (%d positions) and deleted again, all hosts of length<=%d over {a,b,1,.} + %d structured, %d paths", len(pats), len(extras), len(orders), hostLen, len(structured), len(paths))
	stopped := false
	n := 0
	rsx.Subsets(len(pats), 2, func(i int, idx []int) {
		if stopped {
			return
		}
		set := make([]rsx.RouteSpec, 0, len(idx))
		for _, j := range idx {
			set = append(set, rsx.RouteSpec{Method: "GET", Pattern: pats[j]})
		}
		for _, extra := range extras {
			for _, first := range orders {
				n++
				if !c.Mine(n) {
					continue
				}
				if c.ExpiredEvery(64) {
					stopped = true
					r.NotExhaustive = append(r.NotExhaustive, fmt.Sprintf("time guard hit at case #%d", n))
					return
				}
				e, err := buildAfterDelete(set, extra, first)
				if err != nil {
					r.Count("histories_rejected_by_router", 1)
					continue
				}
				r.States++
				for _, h := range hosts {
					for _, p := range paths {
						rq := rsx.Req{Method: "GET", Host: h, Path: p}
						abst, nontriv, class, msg := eval(e, rq)
						r.Evaluations++
						r.Transitions++
						if abst {
							r.Abstained++
						}
						if nontriv {
							r.DistinctNontrivial++
						}
						if class != "" {
							r.Violate("hosts-after-delete", class, fmt.Sprintf("[after Handle(%s) and Delete(%s), extra first=%v] ", extra, extra, first)+msg, Case{Set: set, Req: rq, Extra: extra, ExtraFirst: first})
						}
					}
				}
			}
		}
	})
}

// evalAllow: the host obligations on the answers computed from several per-method lookups (automatic
// OPTIONS, 405): (a) when no hostname route of any method has a host equal to the request host, the
// answer (status, Allow set) is the one for an empty Host; (b) a method that has a hostname route
// matching host and path directly is listed in Allow.
func evalAllow(e *rsx.Env, rq rsx.Req) (bool, string, string) {
	var o, o0 rsx.Obs
	var pv any
	func() {
		defer func() { pv = recover() }()
		e.Serve(rq, &o)
	}()
	if pv != nil {
		return true, "panic", fmt.Sprintf("panic: %v: set %s request %s (host %q)", pv, rsx.SetString(e.Set), rq, rq.Host)
	}
	stripped := ref.StripHost(rq.Host)
	anyHostMatch := false
	var must []string
	for i, rr := range e.RRoutes {
		if rr.Pat.HostLen == 0 || !hostMatches(rr.Pat, stripped) {
			continue
		}
		anyHostMatch = true
		if m := e.Single[i].Lookup(rq.Host, rq.MatchPath()); m.Route != nil && !m.Tsr && e.Set[i].Method != rq.Method {
			must = append(must, e.Set[i].Method)
		}
	}
	allow := "," + strings.ReplaceAll(o.Allow, " ", "") + ","
	hdr := func() string {
		return fmt.Sprintf("set %s request %s (host %q)\n    observed: status=%d allow=%q", rsx.SetString(e.Set), rq, rq.Host, o.Status, o.Allow)
	}
	for _, m := range must {
		if !strings.Contains(allow, ","+m+",") {
			return true, "host-route-not-used", fmt.Sprintf("method %s has a hostname route matching host and path directly, but it is missing from Allow: %s", m, hdr())
		}
	}
	if !anyHostMatch && rq.Host != "" {
		rq0 := rq
		rq0.Host = ""
		e.Serve(rq0, &o0)
		a0 := strings.Split(strings.ReplaceAll(o0.Allow, " ", ""), ",")
		a1 := strings.Split(strings.ReplaceAll(o.Allow, " ", ""), ",")
		sort.Strings(a0)
		sort.Strings(a1)
		if o0.Status != o.Status || strings.Join(a0, ",") != strings.Join(a1, ",") {
			return true, "fallback-differs", fmt.Sprintf("no hostname route matches host %q, yet the answer differs from the path-only answer (status=%d allow=%q): %s", rq.Host, o0.Status, o0.Allow, hdr())
		}
	}
	return len(must) > 0, "", ""
}

// runAllow: subsets <=2 of the pattern pool, methods GET/POST assigned in both ways, router with
// method-not-allowed and automatic OPTIONS; OPTIONS and DELETE requests for every host and path.
func runAllow(c *mc.Ctx, r *mc.Result) {
	pats := patterns()
	hosts := append(allHosts(3), structured...)
	paths := rsx.GenPaths([]string{"a", "b"}, 2)
	r.Bounds["pool"] = fmt.Sprintf("%d patterns, subsets<=2 under {GET,POST} in both assignments, 405 + automatic OPTIONS enabled; OPTIONS and DELETE requests x all hosts of length<=3 over {a,b,1,.} + %d structured x %d paths", len(pats), len(structured), len(paths))
	rsx.Subsets(len(pats), 2, func(i int, idx []int) {
		if !c.Mine(i) {
			return
		}
		for flip := 0; flip < 2; flip++ {
			set := make([]rsx.RouteSpec, 0, len(idx))
			for k, j := range idx {
				set = append(set, rsx.RouteSpec{Method: []string{"GET", "POST"}[(k+flip)%2], Pattern: pats[j]})
			}
			e, err := rsx.Build(set, rsx.Profile{NoMethod: true, AutoOptions: true})
			if err != nil {
				r.Count("sets_rejected_by_router", 1)
				continue
			}
			r.States++
			for _, h := range hosts {
				for _, p := range paths {
					for _, m := range []string{"OPTIONS", "DELETE"} {
						rq := rsx.Req{Method: m, Host: h, Path: p}
						nontriv, class, msg := evalAllow(e, rq)
						r.Evaluations++
						r.Transitions++
						if nontriv {
							r.DistinctNontrivial++
						}
						if class != "" {
							r.Violate("hosts-allow", class, msg, Case{Set: set, Req: rq, Allow: true})
						}
					}
				}
			}
		}
	})
}

// runAfterAbort: sets of 2..3 routes whose first bytes differ (so that the method root has 2..3
// children, spare capacity included), then one more pattern registered inside a write transaction
// that is aborted; the hostname obligations must hold as if the transaction had never existed.
func runAfterAbort(c *mc.Ctx, r *mc.Result) {
	base := []string{"/", "/a", "a.b/", "b.a.b/a", "1.{t}/", "{h}.b/", "a.{t}/a"}
	extras := patterns()
	hosts := append(allHosts(3), structured...)
	paths := rsx.GenPaths([]string{"a", "b"}, 2)
	r.Bounds["pool"] = fmt.Sprintf("subsets of 2..3 of %v x %d extra patterns registered in an aborted write transaction, all hosts of length<=3 over {a,b,1,.} + %d structured, %d paths", base, len(extras), len(structured), len(paths))
	n := 0
	rsx.Subsets(len(base), 3, func(i int, idx []int) {
		if len(idx) < 2 {
			return
		}
		set := make([]rsx.RouteSpec, 0, len(idx))
		in := map[string]bool{}
		for _, j := range idx {
			set = append(set, rsx.RouteSpec{Method: "GET", Pattern: base[j]})
			in[base[j]] = true
		}
		for _, extra := range extras {
			n++
			if in[extra] || !c.Mine(n) {
				continue
			}
			e, err := rsx.BuildAfterAbort(set, "GET", extra, rsx.Profile{})
			if err != nil {
				r.Count("histories_rejected_by_router", 1)
				continue
			}
			r.States++
			for _, h := range hosts {
				for _, p := range paths {
					rq := rsx.Req{Method: "GET", Host: h, Path: p}
					abst, nontriv, class, msg := eval(e, rq)
					r.Evaluations++
					r.Transitions++
					if abst {
						r.Abstained++
					}
					if nontriv {
						r.DistinctNontrivial++
					}
					if class != "" {
						r.Violate("hosts-after-abort", class, fmt.Sprintf("[after an aborted transaction that registered %s] ", extra)+msg, Case{Set: set, Req: rq, Extra: extra, Aborted: true})
					}
				}
			}
		}
	})
}

func replay(c *mc.Ctx, raw json.RawMessage) string {
	var cs Case
	if err := json.Unmarshal(raw, &cs); err != nil {
		return "bad case: " + err.Error()
	}
	if cs.Allow {
		e, err := rsx.Build(cs.Set, rsx.Profile{NoMethod: true, AutoOptions: true})
		if err != nil {
			return ""
		}
		_, _, msg := evalAllow(e, cs.Req)
		return msg
	}
	if cs.Aborted {
		e, err := rsx.BuildAfterAbort(cs.Set, "GET", cs.Extra, rsx.Profile{})
		if err != nil {
			return ""
		}
		_, _, _, msg := eval(e, cs.Req)
		if msg != "" {
			msg = fmt.Sprintf("[after an aborted transaction that registered %s] ", cs.Extra) + msg
		}
		return msg
	}
	if len(cs.Before) > 0 {
		e, err := buildAfterHistory(cs.Set, cs.Before)
		if err != nil {
			return ""
		}
		_, _, _, msg := eval(e, cs.Req)
		if msg != "" {
			msg = fmt.Sprintf("[%v registered before the set and deleted after it] ", cs.Before) + msg
		}
		return msg
	}
	if cs.Extra != "" {
		e, err := buildAfterDelete(cs.Set, cs.Extra, cs.ExtraFirst)
		if err != nil {
			return ""
		}
		_, _, _, msg := eval(e, cs.Req)
		if msg != "" {
			msg = fmt.Sprintf("[after Handle(%s) and Delete(%s), extra first=%v] ", cs.Extra, cs.Extra, cs.ExtraFirst) + msg
		}
		return msg
	}
	e, err := rsx.Build(cs.Set, rsx.Profile{})
	if err != nil {
		return ""
	}
	if err := e.WithViews(); err != nil {
		return err.Error()
	}
	defer e.Done()
	_, _, _, msg := eval(e, cs.Req)
	return msg
}

func init() {
	mc.Register(&mc.Check{
		ID:    "C09",
		Level: "exploration",
		Rule: "every subset (size<=K) of a 35-pattern pool mixing hostname and path-only patterns x every Host string up to a length over {a,b,1,.} plus structured variants (port, trailing dot, IPv4/IPv6 literals, empty, garbage) x paths of depth<=2; the same on routers that additionally went through the registration and deletion of one more pattern (part hosts-after-delete) or through an aborted transaction that registered one more pattern (part hosts-after-abort), or whose tree was shaped by two patterns registered before the set and deleted after it (part hosts-after-history); the Allow lists of automatic OPTIONS and 405 answers under the same host obligations (part hosts-allow); " +
			"non-trivial = the method has hostname routes and the host equals a hostname pattern or contains its distinguishing label",
		Assumptions: []string{
			"host normalisation reference: net.SplitHostPort when a ':' is present (unchanged on error), then one trailing dot removed",
			"obligations are host-only: whole-host equality of any selected hostname route, value round trip, exact path-only answer when no hostname route can be involved, reference direct match under a matching host (direct matching itself is validated by C01)",
		},
		Parts: []mc.Part{{Name: "hosts", Run: run, Replay: replay}, {Name: "hosts-after-delete", Run: runAfterDelete, Replay: replay}, {Name: "hosts-after-abort", Run: runAfterAbort, Replay: replay}, {Name: "hosts-allow", Run: runAllow, Replay: replay}, {Name: "hosts-after-history", Run: runAfterHistory, Replay: replay}},
	})
}
