// Package c14: ResponseWriter status, size and written flag reflect what was really sent.
package c14

import (
	"bytes"
	"encoding/json"
	"errors"
	"fmt"
	"io"
	"net/http"
	"strconv"
	"strings"
	"time"

	"github.com/tigerwill90/fox"

	"verifharness/fx"
	"verifharness/mc"
)

// ---------------------------------------------------------------------------------------------
// recording underlying writers (the ledger)
// ---------------------------------------------------------------------------------------------

type ledger struct {
	h              http.Header
	headers        []int  // every WriteHeader code received, in order
	final          int    // first final status (explicit or implicit), 0 if none
	finals         int    // number of final WriteHeader calls received
	body           []byte // accepted body bytes
	finalAfterBody bool
	budget         int // remaining bytes the writer accepts before failing (-1 = unlimited)
	flushes        int
}

var errSink = errors.New("underlying writer failed")

func (l *ledger) Header() http.Header { return l.h }

func (l *ledger) WriteHeader(code int) {
	l.headers = append(l.headers, code)
	if code >= 100 && code <= 199 && code != 101 {
		return
	}
	l.finals++
	if len(l.body) > 0 {
		l.finalAfterBody = true
	}
	if l.final == 0 {
		l.final = code
	}
}

func (l *ledger) accept(p []byte) (int, error) {
	if l.final == 0 {
		l.final = 200 // implicit, as net/http does
	}
	if l.budget < 0 {
		l.body = append(l.body, p...)
		return len(p), nil
	}
	n := len(p)
	if n > l.budget {
		n = l.budget
	}
	l.body = append(l.body, p[:n]...)
	l.budget -= n
	if n < len(p) {
		return n, errSink
	}
	return n, nil
}

func (l *ledger) Write(p []byte) (int, error) { return l.accept(p) }

// plain: only http.ResponseWriter
type wPlain struct{ *ledger }

// +io.ReaderFrom
type wRF struct{ *ledger }

func (w wRF) ReadFrom(r io.Reader) (int64, error) { return readFrom(w.ledger, r) }

// +http.Flusher
type wFl struct{ *ledger }

func (w wFl) Flush() { w.flushes++; w.flushHeader() }

// +FlushError
type wFE struct{ *ledger }

func (w wFE) FlushError() error { w.flushes++; w.flushHeader(); return nil }

// all
type wAll struct{ *ledger }

func (w wAll) ReadFrom(r io.Reader) (int64, error) { return readFrom(w.ledger, r) }
func (w wAll) Flush()                              { w.flushes++; w.flushHeader() }
func (w wAll) FlushError() error                   { w.flushes++; w.flushHeader(); return nil }

// ReaderFrom + Flusher
type wRFFl struct{ *ledger }

func (w wRFFl) ReadFrom(r io.Reader) (int64, error) { return readFrom(w.ledger, r) }
func (w wRFFl) Flush()                              { w.flushes++; w.flushHeader() }

func (l *ledger) flushHeader() {
	if l.final == 0 {
		l.final = 200
	}
}

func readFrom(l *ledger, r io.Reader) (int64, error) {
	var total int64
	buf := make([]byte, 2)
	for {
		n, err := r.Read(buf)
		if n > 0 {
			m, werr := l.accept(buf[:n])
			total += int64(m)
			if werr != nil {
				return total, werr
			}
		}
		if err == io.EOF {
			return total, nil
		}
		if err != nil {
			return total, err
		}
	}
}

var variantNames = []string{"plain", "+ReaderFrom", "+Flusher", "+FlushError", "+ReaderFrom+Flusher", "all"}

func mkWriter(variant int, l *ledger) http.ResponseWriter {
	switch variant {
	case 0:
		return wPlain{l}
	case 1:
		return wRF{l}
	case 2:
		return wFl{l}
	case 3:
		return wFE{l}
	case 4:
		return wRFFl{l}
	}
	return wAll{l}
}

// differential pairs: same flush capability, with / without ReaderFrom
var diffPairs = [][2]int{{0, 1}, {2, 4}}

// ---------------------------------------------------------------------------------------------
// call alphabet
// ---------------------------------------------------------------------------------------------

type call struct {
	Kind string `json:"k"`
	Code int    `json:"code,omitempty"`
	Data string `json:"data,omitempty"`
	Fail int    `json:"fail,omitempty"` // ReadFrom: source fails after this many bytes (-1 = never)
}

func (c call) String() string {
	switch c.Kind {
	case "WriteHeader":
		return fmt.Sprintf("WriteHeader(%d)", c.Code)
	case "ReadFrom":
		d := strconv.Quote(c.Data)
		if len(c.Data) > 8 {
			d = fmt.Sprintf("%d bytes", len(c.Data))
		}
		if c.Fail >= 0 {
			return fmt.Sprintf("ReadFrom(%s, source fails after %d)", d, c.Fail)
		}
		return fmt.Sprintf("ReadFrom(%s)", d)
	case "FlushError":
		return "FlushError()"
	case "UnsupportedCaps":
		return "Hijack();Push();SetReadDeadline();SetWriteDeadline();EnableFullDuplex() (none offered by the underlying writer)"
	}
	return fmt.Sprintf("%s(%q)", c.Kind, c.Data)
}

var errSrc = errors.New("source failed")

type failingReader struct {
	data []byte
	fail int
	pos  int
}

func (f *failingReader) Read(p []byte) (int, error) {
	if f.fail >= 0 && f.pos >= f.fail {
		return 0, errSrc
	}
	if f.pos >= len(f.data) {
		return 0, io.EOF
	}
	end := len(f.data)
	if f.fail >= 0 && f.fail < end {
		end = f.fail
	}
	n := copy(p, f.data[f.pos:end])
	f.pos += n
	return n, nil
}

func alphabet() []call {
	return []call{
		{Kind: "WriteHeader", Code: 103}, {Kind: "WriteHeader", Code: 101}, {Kind: "WriteHeader", Code: 200}, {Kind: "WriteHeader", Code: 404},
		{Kind: "Write", Data: ""}, {Kind: "Write", Data: "ab"},
		{Kind: "WriteString", Data: ""}, {Kind: "WriteString", Data: "abc"},
		{Kind: "ReadFrom", Data: "xyz", Fail: -1}, {Kind: "ReadFrom", Data: "", Fail: -1},
		{Kind: "ReadFrom", Data: "xyz", Fail: 0}, {Kind: "ReadFrom", Data: "xyzw", Fail: 2},
		{Kind: "FlushError"}, {Kind: "UnsupportedCaps"},
		// long enough to leave the first-chunk phase of the io.ReaderFrom fast path
		{Kind: "ReadFrom", Data: strings.Repeat("q", 600), Fail: -1}, {Kind: "ReadFrom", Data: strings.Repeat("q", 600), Fail: 520},
	}
}

// Case is a replayable call sequence.
type Case struct {
	Calls   []call `json:"calls"`
	Variant int    `json:"variant"`
	Budget  int    `json:"budget"`
}

type answers struct {
	status  int
	size    int
	written bool
}

// runSeq executes the sequence on one underlying writer variant; returns the per-step answers,
// the ledger and a violation.
func runSeq(cs Case) ([]answers, *ledger, string, string) {
	l := &ledger{h: http.Header{}, budget: cs.Budget}
	under := mkWriter(cs.Variant, l)
	ctx := fox.NewTestContextOnly(under, fx.Req("GET", "", "/"))
	w := ctx.Writer()
	var ans []answers
	var told []byte // bytes the caller was told were written
	desc := func(i int) string {
		parts := make([]string, i+1)
		for j := 0; j <= i; j++ {
			parts[j] = cs.Calls[j].String()
		}
		return fmt.Sprintf("calls [%s] on underlying writer %q accepting %d bytes", strings.Join(parts, "; "), variantNames[cs.Variant], cs.Budget)
	}
	for i, c := range cs.Calls {
		var pv any
		capErr := ""
		func() {
			defer func() { pv = recover() }()
			switch c.Kind {
			case "WriteHeader":
				w.WriteHeader(c.Code)
			case "Write":
				n, _ := w.Write([]byte(c.Data))
				told = append(told, c.Data[:max(0, min(n, len(c.Data)))]...)
			case "WriteString":
				n, _ := w.WriteString(c.Data)
				told = append(told, c.Data[:max(0, min(n, len(c.Data)))]...)
			case "ReadFrom":
				n, _ := w.ReadFrom(&failingReader{data: []byte(c.Data), fail: c.Fail})
				told = append(told, c.Data[:max(0, min(int(n), len(c.Data)))]...)
			case "FlushError":
				_ = w.FlushError()
			case "UnsupportedCaps":
				// none of the sequence writers offers these: each must fail with ErrNotSupported and
				// must not change anything (checked by the ledger comparison below)
				_, _, e1 := w.Hijack()
				e2 := w.Push("/x", nil)
				e3 := w.SetReadDeadline(time.Time{})
				e4 := w.SetWriteDeadline(time.Time{})
				e5 := w.EnableFullDuplex()
				for _, e := range []error{e1, e2, e3, e4, e5} {
					if !errors.Is(e, http.ErrNotSupported) {
						capErr = fmt.Sprintf("an optional capability the underlying writer does not offer returned %v, want an error matching http.ErrNotSupported", e)
					}
				}
			}
		}()
		if capErr != "" {
			return ans, l, "not-supported-error", capErr + " after " + desc(i)
		}
		if pv != nil {
			return ans, l, "panic", fmt.Sprintf("%s panicked: %v", desc(i), pv)
		}
		a := answers{w.Status(), w.Size(), w.Written()}
		ans = append(ans, a)
		// the ledger model
		if a.size != len(l.body) {
			return ans, l, "wrong-size", fmt.Sprintf("Size() = %d but the underlying writer accepted %d body bytes after %s", a.size, len(l.body), desc(i))
		}
		wantWritten := l.final != 0 || len(l.body) > 0
		if a.written != wantWritten {
			return ans, l, "wrong-written", fmt.Sprintf("Written() = %v but final header forwarded=%v, body bytes accepted=%d after %s", a.written, l.final != 0, len(l.body), desc(i))
		}
		if l.final != 0 && a.status != l.final {
			return ans, l, "wrong-status", fmt.Sprintf("Status() = %d but the first final status the underlying writer got is %d after %s", a.status, l.final, desc(i))
		}
		if l.finals > 1 {
			return ans, l, "two-final-headers", fmt.Sprintf("the underlying writer received %d final WriteHeader calls %v after %s", l.finals, l.headers, desc(i))
		}
		if l.finalAfterBody {
			return ans, l, "header-after-body", fmt.Sprintf("a final WriteHeader was forwarded after body bytes (%v) after %s", l.headers, desc(i))
		}
		if !bytes.Equal(told, l.body) {
			return ans, l, "bytes-lost", fmt.Sprintf("the caller was told %d bytes were written, the underlying writer accepted %d bytes (or different ones) after %s", len(told), len(l.body), desc(i))
		}
	}
	return ans, l, "", ""
}

func runSequences(c *mc.Ctx, r *mc.Result) {
	alpha := alphabet()
	maxLen := 5
	if c.Quick() {
		maxLen = 4
	}
	budgets := []int{-1, 0, 1, 4, 515}
	r.Bounds["sequences"] = fmt.Sprintf("all call sequences of <=%d over %d calls x %d underlying writer variants x underlying writers accepting {unlimited,0,1,4,515} bytes; differential between variants with and without io.ReaderFrom", maxLen, len(alpha), len(variantNames))
	idx := 0
	var cur []call
	var rec func()
	rec = func() {
		if len(cur) > 0 {
			idx++
			if c.Mine(idx) {
				for _, b := range budgets {
					res := make([][]answers, len(variantNames))
					leds := make([]*ledger, len(variantNames))
					failed := false
					for v := range variantNames {
						cs := Case{Calls: append([]call{}, cur...), Variant: v, Budget: b}
						a, l, class, msg := runSeq(cs)
						res[v], leds[v] = a, l
						r.Evaluations++
						r.States += int64(len(cur))
						r.Transitions += int64(len(cur))
						r.TracesValidated++
						if len(cur) >= 2 {
							r.DistinctNontrivial++
						}
						if class != "" {
							failed = true
							r.Violate("sequences", class, msg, cs)
						}
					}
					if failed {
						continue
					}
					for _, p := range diffPairs {
						a, b2 := res[p[0]], res[p[1]]
						for i := range a {
							if a[i] != b2[i] {
								r.Violate("sequences", "fast-path-differs", fmt.Sprintf("after call %d of [%v] (underlying accepts %d bytes) Status/Size/Written = %v without io.ReaderFrom but %v with it", i, cur, b, a[i], b2[i]), Case{Calls: append([]call{}, cur...), Variant: p[1], Budget: b})
								break
							}
						}
						if !bytes.Equal(leds[p[0]].body, leds[p[1]].body) {
							r.Violate("sequences", "fast-path-differs", fmt.Sprintf("[%v] (underlying accepts %d bytes): body %q without io.ReaderFrom, %q with it", cur, b, leds[p[0]].body, leds[p[1]].body), Case{Calls: append([]call{}, cur...), Variant: p[1], Budget: b})
						}
					}
				}
				if idx == 5000 {
					r.Sample(Case{Calls: append([]call{}, cur...), Variant: 1, Budget: 1})
				}
			}
		}
		if len(cur) == maxLen {
			return
		}
		for _, a := range alpha {
			cur = append(cur, a)
			rec()
			cur = cur[:len(cur)-1]
		}
	}
	rec()
}

// runCapabilities: optional capabilities are delegated when offered, else ErrNotSupported.
func runCapabilities(c *mc.Ctx, r *mc.Result) {
	if c.Shard != 0 {
		return
	}
	r.Bounds["capabilities"] = "all 32 combinations of {Flusher, Hijacker, Pusher, read/write deadlines, full duplex} on the underlying writer x the 6 capability calls x {nothing sent, header sent, header and body bytes sent}; Context helpers String/Blob/Stream; Redirect for every code 0..999"
	nCap := len(capWriters())
	for ci := 0; ci < nCap; ci++ {
		for pi := 0; pi < 18; pi++ {
			// a fresh underlying writer and context for every probe: nothing has been sent before the call
			// (probes 0..5), a header was sent (6..11), a header and body bytes were sent (12..17): delegation
			// does not depend on what was sent before
			cw := capWriters()[ci]
			ctx := fox.NewTestContextOnly(cw.w, fx.Req("GET", "", "/"))
			w := ctx.Writer()
			stage := pi / 6
			pi := pi % 6
			if stage >= 1 {
				w.WriteHeader(200)
			}
			if stage == 2 {
				w.Write([]byte("body"))
			}
			type probe struct {
				name string
				bit  int
				call func() error
				log  string
			}
			probes := []probe{
				{"FlushError", 0, func() error { return w.FlushError() }, "Flush"},
				{"Push", 2, func() error { return w.Push("/x", nil) }, "Push"},
				{"SetReadDeadline", 3, func() error { return w.SetReadDeadline(zeroTime) }, "SetReadDeadline"},
				{"SetWriteDeadline", 3, func() error { return w.SetWriteDeadline(zeroTime) }, "SetWriteDeadline"},
				{"EnableFullDuplex", 4, func() error { return w.EnableFullDuplex() }, "EnableFullDuplex"},
				{"Hijack", 1, func() error { _, _, err := w.Hijack(); return err }, "Hijack"},
			}
			p := probes[pi]
			before := len(cw.w.Calls())
			err := p.call()
			r.Evaluations++
			r.DistinctNontrivial++
			delegated := len(cw.w.Calls()) > before && cw.w.Calls()[len(cw.w.Calls())-1] == p.log
			has := cw.mask&(1<<p.bit) != 0
			if has && !delegated {
				r.Violate("capabilities", "not-delegated", fmt.Sprintf("%s: the underlying writer (capability mask %05b) offers it but it was not called (err=%v)", p.name, cw.mask, err), cw.mask)
			}
			if !has && (delegated || !errors.Is(err, http.ErrNotSupported)) {
				r.Violate("capabilities", "not-unsupported", fmt.Sprintf("%s: the underlying writer (capability mask %05b) lacks it, got err=%v (want an error matching http.ErrNotSupported)", p.name, cw.mask, err), cw.mask)
			}
			if has && p.name != "FlushError" && !errors.Is(err, errMarker) {
				r.Violate("capabilities", "not-delegated", fmt.Sprintf("%s: the underlying writer's result was not returned (err=%v)", p.name, err), cw.mask)
			}
			// none of these calls (a flush excepted) forwards a header or a body byte
			if stage == 0 && p.name != "FlushError" && (w.Written() || w.Status() != 200 || w.Size() != 0) {
				r.Violate("capabilities", "wrong-written", fmt.Sprintf("after %s alone (underlying capability mask %05b, err=%v) Written()=%v Status()=%d Size()=%d although no header and no body byte were forwarded", p.name, cw.mask, err, w.Written(), w.Status(), w.Size()), cw.mask)
			}
		}
	}
	// flushing writers that can report an error: FlushError() alone, and next to the legacy Flush() (as net/http's
	// writers offer both): the error-returning method is the one to call, and its error is returned
	for _, fw := range []struct {
		name string
		w    interface {
			http.ResponseWriter
			Calls() []string
		}
	}{{"FlushError only", &capFlushErr{capBase{h: http.Header{}}}}, {"Flush and FlushError", &capFlushBoth{capBase{h: http.Header{}}}}} {
		ctx := fox.NewTestContextOnly(fw.w, fx.Req("GET", "", "/"))
		err := ctx.Writer().FlushError()
		r.Evaluations++
		r.DistinctNontrivial++
		if calls := fw.w.Calls(); !errors.Is(err, errMarker) || len(calls) == 0 || calls[len(calls)-1] != "FlushError" {
			r.Violate("capabilities", "not-delegated", fmt.Sprintf("FlushError on an underlying writer offering %s: calls %v, err=%v; want its FlushError called and its error returned", fw.name, fw.w.Calls(), err), "flush")
		}
	}
	// helpers
	// every status code with the short bodies (incl. 204 and 304: the helpers send what they are given, it is the
	// underlying writer's business to refuse a body); the long body with every 37th code; and each helper again
	// after an earlier final WriteHeader (the recorded status stays the first one, the bytes are still sent)
	for code := 100; code <= 599; code++ {
		for bi, body := range []string{"", "hello", strings.Repeat("z", 70000)} {
			if bi == 2 && (code-100)%37 != 0 {
				continue
			}
			for hi, helper := range []string{"String", "Blob", "Stream", "Blob+preset", "Stream+preset", "String+after204", "Blob+after204", "Stream+after304",
				"String", "Blob", "Stream", "String", "Blob", "Stream"} {
				rw := fx.NewRW()
				var ctx fox.Context = fox.NewTestContextOnly(rw, fx.Req("GET", "", "/"))
				// the helpers address the Context's current writer: the one installed with SetWriter (entries
				// 8..10), or the one a CloneWith copy was given (entries 11..13); the first writer sees nothing
				var unused *fx.RW
				if hi >= 8 {
					if bi == 2 {
						continue
					}
					first := rw
					unused = first
					rw = fx.NewRW()
					other := fox.NewTestContextOnly(rw, fx.Req("GET", "", "/"))
					if hi < 11 {
						ctx.SetWriter(wrapWriter{other.Writer()})
						helper += " after SetWriter"
					} else {
						ctx = ctx.CloneWith(other.Writer(), fx.Req("GET", "", "/"))
						helper += " on a CloneWith copy"
					}
				}
				var err error
				first := 0
				if i := strings.Index(helper, "+after"); i >= 0 {
					if bi == 2 || code%7 != 0 {
						continue
					}
					first, _ = strconv.Atoi(helper[i+6:])
					helper = helper[:i]
					ctx.Writer().WriteHeader(first)
				}
				wantCT := "application/x-test"
				if strings.HasSuffix(helper, "+preset") {
					// a Content-Type already on the response (a default set by a middleware): the helper is
					// given its own and must send that one
					ctx.SetHeader("Content-Type", "application/json")
					helper = strings.TrimSuffix(helper, "+preset")
				}
				func() {
					defer func() {
						if pv := recover(); pv != nil {
							err = fmt.Errorf("panic: %v", pv)
						}
					}()
					switch strings.Fields(helper)[0] {
					case "String":
						err = ctx.String(code, "%s", body)
						wantCT = fox.MIMETextPlainCharsetUTF8
					case "Blob":
						err = ctx.Blob(code, wantCT, []byte(body))
					case "Stream":
						err = ctx.Stream(code, wantCT, strings.NewReader(body))
					}
				}()
				r.Evaluations++
				if unused != nil && (unused.Calls != 0 || unused.Code != 0 || len(unused.Body) != 0) {
					r.Violate("capabilities", "helper", fmt.Sprintf("%s (%d): the writer the Context no longer uses received status=%d, %d body bytes", helper, code, unused.Code, len(unused.Body)), helper)
				}
				informational := code < 200 && code != 101
				if informational {
					continue // the status of an informational code followed by a body is the implicit 200
				}
				if first != 0 {
					// the first final status stands; the helper's bytes are forwarded all the same
					if err != nil || rw.Code != first || string(rw.Body) != body || ctx.Writer().Status() != first || ctx.Writer().Size() != len(body) {
						r.Violate("capabilities", "helper", fmt.Sprintf("WriteHeader(%d) then %s(%d, %d bytes): err=%v status=%d body=%d bytes, recorder status=%d size=%d", first, helper, code, len(body), err, rw.Code, len(rw.Body), ctx.Writer().Status(), ctx.Writer().Size()), helper)
					}
					continue
				}
				if err != nil || rw.Code != code || string(rw.Body) != body || rw.H.Get("Content-Type") != wantCT {
					r.Violate("capabilities", "helper", fmt.Sprintf("%s(%d, %d bytes): err=%v status=%d body=%d bytes content-type=%q", helper, code, len(body), err, rw.Code, len(rw.Body), rw.H.Get("Content-Type")), helper)
				}
				if ctx.Writer().Status() != code || ctx.Writer().Size() != len(body) || !ctx.Writer().Written() {
					r.Violate("capabilities", "helper", fmt.Sprintf("%s(%d, %d bytes): recorder reports status=%d size=%d written=%v", helper, code, len(body), ctx.Writer().Status(), ctx.Writer().Size(), ctx.Writer().Written()), helper)
				}
			}
		}
	}
	// String: every format of <=3 tokens over literals, %%, and verbs x operand lists (exact, none,
	// one too many); the bytes sent are by definition fmt.Sprintf(format, operands...)
	toks := []string{"x", "%%", "%s", "%d", "%v", "%q", "100%", "\n"}
	var fmts []string
	var genf func(cur string, n int)
	genf = func(cur string, n int) {
		fmts = append(fmts, cur)
		if n == 3 {
			return
		}
		for _, t := range toks {
			genf(cur+t, n+1)
		}
	}
	genf("", 0)
	for _, f := range fmts {
		verbs := strings.Count(strings.ReplaceAll(f, "%%", ""), "%")
		for _, nops := range []int{0, verbs, verbs + 1} {
			if nops < 0 || (nops == verbs && verbs == 0 && nops != 0) {
				continue
			}
			var ops []any
			for i := 0; i < nops; i++ {
				if i%2 == 0 {
					ops = append(ops, "s\"v")
				} else {
					ops = append(ops, 42)
				}
			}
			want := fmt.Sprintf(f, ops...)
			rw := fx.NewRW()
			ctx := fox.NewTestContextOnly(rw, fx.Req("GET", "", "/"))
			err := ctx.String(201, f, ops...)
			r.Evaluations++
			if err != nil || rw.Code != 201 || string(rw.Body) != want || ctx.Writer().Size() != len(want) {
				r.Violate("capabilities", "helper", fmt.Sprintf("String(201, %q, %d operands): err=%v status=%d body=%q size=%d, want body %q", f, nops, err, rw.Code, rw.Body, ctx.Writer().Size(), want), "String")
			}
		}
	}
	// Stream from a source failing after k bytes: the error is returned, the bytes read so far are sent
	for _, k := range []int{0, 1, 5} {
		rw := fx.NewRW()
		ctx := fox.NewTestContextOnly(rw, fx.Req("GET", "", "/"))
		src := &failingReader{data: []byte(strings.Repeat("y", k+3)), fail: k}
		err := ctx.Stream(202, "application/x-test", src)
		r.Evaluations++
		if err == nil || rw.Code != 202 || len(rw.Body) != k || ctx.Writer().Size() != k || rw.H.Get("Content-Type") != "application/x-test" {
			r.Violate("capabilities", "helper", fmt.Sprintf("Stream(202) from a source failing after %d bytes: err=%v status=%d body=%d bytes size=%d content-type=%q", k, err, rw.Code, len(rw.Body), ctx.Writer().Size(), rw.H.Get("Content-Type")), "Stream")
		}
	}
	for code := 0; code <= 999; code++ {
		rw := fx.NewRW()
		ctx := fox.NewTestContextOnly(rw, fx.Req("GET", "", "/"))
		err := ctx.Redirect(code, "/target")
		r.Evaluations++
		ok := code >= 300 && code <= 308
		if ok && (err != nil || rw.Code != code || rw.H.Get("Location") != "/target") {
			r.Violate("capabilities", "redirect", fmt.Sprintf("Redirect(%d): err=%v status=%d Location=%q", code, err, rw.Code, rw.H.Get("Location")), code)
		}
		if !ok && (!errors.Is(err, fox.ErrInvalidRedirectCode) || rw.Code != 0 || rw.Calls != 0) {
			r.Violate("capabilities", "redirect", fmt.Sprintf("Redirect(%d) must be refused without effect: err=%v status=%d", code, err, rw.Code), code)
		}
	}
	// Redirect sends the target it is given the way net/http's Redirect does (that is its documented behaviour):
	// every valid code x 9 targets (absolute path, relative references, absolute URL, with query, empty, non-ASCII)
	// x requests with and without a query string, on a deep path, GET/HEAD/POST, against http.Redirect itself
	for code := 300; code <= 308; code++ {
		for _, target := range []string{"/target", "target", "../up", "./x", "http://example.test/y", "/t?x=1", "", "/é", "?only=query"} {
			for _, rqs := range []struct{ method, path, query string }{{"GET", "/", ""}, {"GET", "/a/b/", "q=1&path=/other"}, {"POST", "/a/b", "token=s3cr3t"}, {"HEAD", "/a", "z"}} {
				mk := func() *http.Request { return fx.ReqRaw(rqs.method, "", rqs.path, "", rqs.query) }
				want := fx.NewRW()
				http.Redirect(want, mk(), target, code)
				rw := fx.NewRW()
				ctx := fox.NewTestContextOnly(rw, mk())
				err := ctx.Redirect(code, target)
				r.Evaluations++
				r.DistinctNontrivial++
				if err != nil || rw.Code != want.Code || rw.H.Get("Location") != want.H.Get("Location") || string(rw.Body) != string(want.Body) || rw.H.Get("Content-Type") != want.H.Get("Content-Type") {
					r.Violate("capabilities", "redirect", fmt.Sprintf("Redirect(%d, %q) on %s %s?%s: err=%v status=%d Location=%q body=%q; net/http sends status=%d Location=%q body=%q", code, target, rqs.method, rqs.path, rqs.query, err, rw.Code, rw.H.Get("Location"), rw.Body, want.Code, want.H.Get("Location"), want.Body), code)
				}
			}
		}
	}
	r.Sample(map[string]any{"capability_mask": "10101", "calls": []string{"FlushError", "Push", "SetReadDeadline", "SetWriteDeadline", "EnableFullDuplex", "Hijack"}})
}

type capFlushErr struct{ capBase }

func (w *capFlushErr) FlushError() error { w.log("FlushError"); return errMarker }

type capFlushBoth struct{ capBase }

func (w *capFlushBoth) Flush()            { w.log("Flush") }
func (w *capFlushBoth) FlushError() error { w.log("FlushError"); return errMarker }

// wrapWriter is a user's ResponseWriter around the recorder (what SetWriter is for).
type wrapWriter struct{ fox.ResponseWriter }

func init() {
	mc.Register(&mc.Check{
		ID:    "C14",
		Level: "model_checking",
		Rule: "every call sequence up to a length over the writer API (WriteHeader informational/101/final, Write, WriteString, ReadFrom with sources failing after k bytes, FlushError) x 6 underlying writer variants x underlying writers failing after j accepted bytes; after every call the recorder's Status/Size/Written are compared with the ledger of the recording underlying writer, and pairs of variants differing only in io.ReaderFrom are compared with each other; plus all 32 capability combinations, the Context helpers and Redirect for every code 0..999; " +
			"distinct_nontrivial = sequences of >=2 calls x variants x budgets + capability probes",
		Assumptions: []string{
			"the recording underlying writer follows net/http: 1xx except 101 are informational, the first body byte implies 200, a flush sends the header",
			"the differential between fast paths is taken between variants with identical flush capability",
		},
		Parts: []mc.Part{
			{Name: "sequences", Run: runSequences, Replay: func(c *mc.Ctx, raw json.RawMessage) string {
				var cs Case
				if err := json.Unmarshal(raw, &cs); err != nil {
					return "bad case"
				}
				_, _, _, msg := runSeq(cs)
				if msg != "" {
					return msg
				}
				// differential
				for _, p := range diffPairs {
					if p[1] != cs.Variant {
						continue
					}
					o := cs
					o.Variant = p[0]
					a, la, _, _ := runSeq(o)
					b, lb, _, _ := runSeq(cs)
					for i := range a {
						if i < len(b) && a[i] != b[i] {
							return fmt.Sprintf("after call %d: %v without io.ReaderFrom, %v with it", i, a[i], b[i])
						}
					}
					if !bytes.Equal(la.body, lb.body) {
						return "bodies differ between fast and slow path"
					}
				}
				return ""
			}},
			{Name: "capabilities", Run: runCapabilities, Replay: func(c *mc.Ctx, raw json.RawMessage) string {
				r := mc.NewResult()
				cc := *c
				cc.Shard = 0
				runCapabilities(&cc, r)
				if len(r.Violations) > 0 {
					return r.Violations[0].Msg
				}
				return ""
			}},
		},
	})
}

var zeroTime = time.Time{}
