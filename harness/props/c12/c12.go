// Package c12: a Context only ever shows the current request.
package c12

import (
	"bufio"
	"encoding/json"
	"fmt"
	"hash/fnv"
	"io"
	"net"
	"net/http"
	"strings"

	"github.com/tigerwill90/fox"
	vs "github.com/tigerwill90/fox/verifsync"

	"verifharness/fx"
	"verifharness/mc"
)

// request kinds
const (
	kDirect = iota
	kIgnoreSlash
	kRedirect
	kNotFound
	kNoMethod
	kOptions
	kLookupClose
	kLookupClone
	kCloneWith
	kCloneStash
	kHostDirect
	kInfix
	kIterBreak
	kHandlerLookup
	kIgnoreCloneStash
	kHostIgnoreLookup
	kInfix2Ignore
	kHostInfixIgnore
	kHostFork405
	kNoQueryMark
	kHijack
	kIgnoreAtParamChild
	kIgnoreCloneWith
	kBrokenWriter
	kSameQuery
	nKinds
)

var kindNames = [...]string{"direct(2 params)", "ignored-slash", "redirect", "404", "405", "OPTIONS", "Lookup+Close", "Lookup+Clone", "handler-CloneWith", "handler-Clone-stash", "hostname-direct", "infix-catch-all", "iterators-left-early", "handler-Lookup-inside", "ignored-slash-Clone-stash", "static-hostname-ignored-slash+Lookup-inside", "two-infix-catch-alls-ignored-slash", "hostname-infix-catch-all-ignored-slash", "405-after-backtracking-in-the-hostname-tree", "no-query-string+handler-adds-a-query-value+Clone-stash", "handler-hijacks-the-connection-before-writing", "ignored-slash-where-the-walk-stops-at-a-parameter-child", "ignored-slash+handler-CloneWith", "client-gone:every-write-of-every-helper-fails", "same-query-string-as-other-requests+handler-edits-the-query-values"}

// world is one router plus the bookkeeping of one execution.
type world struct {
	f      *fox.Router
	errs   []string
	cur    *reqInfo
	stash  []*stashed
	serial int
}

type reqInfo struct {
	tok      string
	kind     int
	observed bool
	noQuery  bool // the request carries no query string
	// sameQuery: the request carries the query string "same=1", byte for byte the one of every other request of its kind
	sameQuery bool
}

type stashed struct {
	c       fox.Context
	tok     string
	kind    int
	params  string
	status  int
	size    int
	written bool
	route   string
	scope   fox.HandlerScope
	hdr     string
	query   string
}

func (w *world) bad(format string, a ...any) {
	w.errs = append(w.errs, fmt.Sprintf("request %q (%s): ", w.cur.tok, kindNames[w.cur.kind])+fmt.Sprintf(format, a...))
}

func paramsOf(c fox.Context) string {
	var sb strings.Builder
	for p := range c.Params() {
		sb.WriteString(p.Key + "=" + p.Value + ",")
	}
	return sb.String()
}

// observe checks every getter of c against the current request.
func (w *world) observe(c fox.Context, wantPattern string, wantScope fox.HandlerScope, wantParams []string, freshWriter bool) {
	ri := w.cur
	ri.observed = true
	tok := ri.tok
	ps := paramsOf(c)
	want := ""
	for i, n := range wantParams {
		want += n + "=" + tok + string(rune('a'+i)) + ","
	}
	if ps != want {
		w.bad("Params() = [%s], want [%s]", ps, want)
	}
	for i, n := range wantParams {
		if g := c.Param(n); g != tok+string(rune('a'+i)) {
			w.bad("Param(%q) = %q", n, g)
		}
	}
	for _, n := range []string{"a", "b", "h", "w"} {
		found := false
		for _, x := range wantParams {
			if x == n {
				found = true
			}
		}
		if !found && c.Param(n) != "" {
			w.bad("Param(%q) = %q for a request that has no such parameter", n, c.Param(n))
		}
	}
	if c.Pattern() != wantPattern {
		w.bad("Pattern() = %q, want %q", c.Pattern(), wantPattern)
	}
	if (c.Route() == nil) != (wantPattern == "") || (c.Route() != nil && c.Route().Pattern() != wantPattern) {
		w.bad("Route() does not match pattern %q", wantPattern)
	}
	if c.Scope() != wantScope {
		w.bad("Scope() = %d, want %d", c.Scope(), wantScope)
	}
	if r := c.Request(); r == nil || r.Header.Get("X-Tok") != tok || !strings.Contains(r.URL.Path, tok) {
		w.bad("Request() is not the current request")
	}
	if c.Header("X-Tok") != tok {
		w.bad("Header(X-Tok) = %q", c.Header("X-Tok"))
	}
	if ip := c.RemoteIP(); ip == nil || ip.String() != w.remoteOf() {
		w.bad("RemoteIP() = %v, the request comes from %s", ip, w.remoteOf())
	}
	wantQ := tok
	if w.cur.noQuery {
		wantQ = ""
		// the only value such a request may ever show is the one its own handler added
		for k, v := range c.QueryParams() {
			if k != "mark" || len(v) != 1 || v[0] != tok {
				w.bad("QueryParams() of a request without a query string holds %s=%v", k, v)
			}
		}
	}
	if w.cur.sameQuery {
		wantQ = ""
		// the values of its own query string, whatever an earlier handler did to the values of an equal one
		if q := c.QueryParams(); len(q) != 1 || c.QueryParam("same") != "1" {
			w.bad("QueryParams() = %v for the query string same=1", q)
		}
	}
	if c.QueryParam("q") != wantQ || c.QueryParams().Get("q") != wantQ {
		w.bad("QueryParam(q) = %q / QueryParams = %v, want %q", c.QueryParam("q"), c.QueryParams(), wantQ)
	}
	if !strings.Contains(c.Path(), tok) {
		w.bad("Path() = %q", c.Path())
	}
	if freshWriter {
		wr := c.Writer()
		if wr.Status() != 200 || wr.Written() || wr.Size() != 0 {
			w.bad("Writer() starts with status=%d written=%v size=%d, want 200/false/0", wr.Status(), wr.Written(), wr.Size())
		}
		for k, v := range wr.Header() {
			if k != "Allow" {
				w.bad("response header %s=%v present before the handler wrote anything", k, v)
			}
		}
	}
}

// respond writes a token-specific response (the body is the token itself), through one of the ways a handler
// can send a body; which one rotates with the request's position and kind.
func (w *world) respond(c fox.Context) {
	tok := w.cur.tok
	n := len(tok)
	c.SetHeader("X-Resp", tok)
	switch (w.serial + w.cur.kind) % 5 {
	case 0:
		c.Writer().WriteHeader(200 + n)
		c.Writer().Write([]byte(tok))
	case 1:
		c.String(200+n, "%s", tok)
	case 2:
		c.Blob(200+n, "text/plain", []byte(tok))
	case 3:
		c.Stream(200+n, "text/plain", strings.NewReader(tok))
	case 4:
		c.Writer().WriteHeader(200 + n)
		c.Writer().WriteString(tok)
	}
}

func (w *world) stashClone(c fox.Context, cl fox.Context) {
	s := &stashed{c: cl, tok: w.cur.tok, kind: w.cur.kind, params: paramsOf(c), route: c.Pattern(), scope: c.Scope()}
	wr := c.Writer()
	s.status, s.size, s.written = wr.Status(), wr.Size(), wr.Written()
	s.hdr = fmt.Sprint(wr.Header())
	s.query = cl.QueryParams().Encode()
	w.stash = append(w.stash, s)
}

// recheck re-reads every stashed clone.
func (w *world) recheck(when string) {
	for _, s := range w.stash {
		c := s.c
		var msgs []string
		if p := paramsOf(c); p != s.params {
			msgs = append(msgs, fmt.Sprintf("Params()=[%s] want [%s]", p, s.params))
		}
		if c.Pattern() != s.route {
			msgs = append(msgs, fmt.Sprintf("Pattern()=%q want %q", c.Pattern(), s.route))
		}
		if c.Scope() != s.scope {
			msgs = append(msgs, fmt.Sprintf("Scope()=%d want %d", c.Scope(), s.scope))
		}
		if r := c.Request(); r == nil || r.Header.Get("X-Tok") != s.tok {
			msgs = append(msgs, "Request() is not the cloned request")
		}
		if q := c.QueryParams().Encode(); q != s.query {
			msgs = append(msgs, fmt.Sprintf("QueryParams()=%q, at clone time %q", q, s.query))
		}
		wr := c.Writer()
		if wr.Status() != s.status || wr.Size() != s.size || wr.Written() != s.written {
			msgs = append(msgs, fmt.Sprintf("Writer() status=%d size=%d written=%v, at clone time %d/%d/%v", wr.Status(), wr.Size(), wr.Written(), s.status, s.size, s.written))
		}
		if h := fmt.Sprint(wr.Header()); h != s.hdr {
			msgs = append(msgs, fmt.Sprintf("Writer().Header()=%s, at clone time %s", h, s.hdr))
		}
		if len(msgs) > 0 {
			w.errs = append(w.errs, fmt.Sprintf("clone of request %q (%s) read %s: %s", s.tok, kindNames[s.kind], when, strings.Join(msgs, "; ")))
		}
	}
}

func newWorld(withHost bool) *world {
	w := &world{}
	special := func(scope fox.HandlerScope) fox.HandlerFunc {
		return func(c fox.Context) {
			w.observe(c, "", scope, nil, true)
			w.respond(c)
		}
	}
	f, err := fox.New(
		fox.WithNoRouteHandler(special(fox.NoRouteHandler)),
		fox.WithNoMethodHandler(special(fox.NoMethodHandler)),
		fox.WithOptionsHandler(special(fox.OptionsHandler)),
		fox.WithMiddlewareFor(fox.RedirectHandler, func(next fox.HandlerFunc) fox.HandlerFunc {
			return func(c fox.Context) {
				w.observe(c, "", fox.RedirectHandler, nil, true)
				next(c)
			}
		}),
	)
	if err != nil {
		panic(err)
	}
	w.f = f
	must := func(_ *fox.Route, err error) {
		if err != nil {
			panic(err)
		}
	}
	must(f.Handle("GET", "/u/{a}/{b}", func(c fox.Context) {
		w.observe(c, "/u/{a}/{b}", fox.RouteHandler, []string{"a", "b"}, true)
		w.respond(c)
	}))
	must(f.Handle("GET", "/i/{a}/", func(c fox.Context) {
		w.observe(c, "/i/{a}/", fox.RouteHandler, []string{"a"}, true)
		w.respond(c)
	}, fox.WithIgnoreTrailingSlash(true)))
	must(f.Handle("GET", "/r/{a}/", func(c fox.Context) { w.bad("redirect route handler must not run") }, fox.WithRedirectTrailingSlash(true)))
	must(f.Handle("GET", "/cw/{a}", func(c fox.Context) {
		w.observe(c, "/cw/{a}", fox.RouteHandler, []string{"a"}, true)
		w2 := fx.WrapRW(fx.NewRW())
		cc := c.CloneWith(w2, c.Request())
		w.observe(cc, "/cw/{a}", fox.RouteHandler, []string{"a"}, true)
		cc.Close()
		w.cloneWithOther(c)
		w.respond(c)
	}))
	must(f.Handle("GET", "/cl/{a}", func(c fox.Context) {
		w.observe(c, "/cl/{a}", fox.RouteHandler, []string{"a"}, true)
		c.SetHeader("X-Early", w.cur.tok)
		w.stashClone(c, c.Clone())
		w.respond(c)
		// a second clone taken after the response was written, then a header set afterwards (a trailer, a
		// middleware on its way out): the clone keeps the headers of the moment it was taken
		w.stashClone(c, c.Clone())
		c.SetHeader("X-Late", w.cur.tok)
	}))
	// a slash-adjusted match whose handler wraps its context with CloneWith: the clone and, afterwards, the parent
	// still show the current request's values
	must(f.Handle("GET", "/icw/{a}/", func(c fox.Context) {
		w.observe(c, "/icw/{a}/", fox.RouteHandler, []string{"a"}, true)
		cc := c.CloneWith(fx.WrapRW(fx.NewRW()), c.Request())
		w.observe(cc, "/icw/{a}/", fox.RouteHandler, []string{"a"}, true)
		cc.Close()
		w.observe(c, "/icw/{a}/", fox.RouteHandler, []string{"a"}, true)
		w.respond(c)
	}, fox.WithIgnoreTrailingSlash(true)))
	// a slash-adjusted match found where the walk stops at the very beginning of a parameter child of the leaf
	must(f.Handle("GET", "/tw/{a}/foo", func(c fox.Context) {
		w.observe(c, "/tw/{a}/foo", fox.RouteHandler, []string{"a"}, true)
		w.respond(c)
	}, fox.WithIgnoreTrailingSlash(true)))
	must(f.Handle("GET", "/tw/{a}/foo{b}", func(c fox.Context) { w.bad("the glued-parameter sibling must not run") }))
	// the handler takes the connection over before anything was written (the upgrade flow) and writes nothing
	must(f.Handle("GET", "/hj/{a}", func(c fox.Context) {
		w.observe(c, "/hj/{a}", fox.RouteHandler, []string{"a"}, true)
		conn, _, err := c.Writer().Hijack()
		if err != nil {
			w.bad("Hijack() on a writer that supports it returned %v", err)
		}
		if conn != nil {
			conn.Close()
		}
	}))
	// requests with equal query strings: the handler edits the (per-request) query values after reading them
	must(f.Handle("GET", "/sq/{a}", func(c fox.Context) {
		w.observe(c, "/sq/{a}", fox.RouteHandler, []string{"a"}, true)
		c.QueryParams().Set("same", w.cur.tok)
		c.QueryParams().Set("extra", w.cur.tok)
		w.respond(c)
	}))
	// the client is gone: every write of every helper fails; nothing of this response may reach a later one
	must(f.Handle("GET", "/bw/{a}", func(c fox.Context) {
		w.observe(c, "/bw/{a}", fox.RouteHandler, []string{"a"}, true)
		leak := "LEAK-" + w.cur.tok
		c.String(200, "%s", leak)
		c.Blob(200, "text/plain", []byte(leak))
		c.Stream(200, "text/plain", strings.NewReader(leak))
		c.Writer().Write([]byte(leak))
		c.Writer().WriteString(leak)
	}))
	// a request without a query string whose handler adds a value to the (per-request) query values and keeps a Clone
	must(f.Handle("GET", "/nq/{a}", func(c fox.Context) {
		w.observe(c, "/nq/{a}", fox.RouteHandler, []string{"a"}, true)
		c.QueryParams().Set("mark", w.cur.tok)
		if g := c.QueryParam("mark"); g != w.cur.tok {
			w.bad("QueryParam(mark) = %q right after QueryParams().Set(mark, %q)", g, w.cur.tok)
		}
		// a context made by CloneWith for another request without a query string shows no query value at all
		r2 := c.Request().Clone(c.Request().Context())
		cc := c.CloneWith(fx.WrapRW(fx.NewRW()), r2)
		if q := cc.QueryParams(); len(q) != 0 {
			w.bad("CloneWith(w, r2) for a request without a query string reads QueryParams() = %v", q)
		}
		cc.Close()
		w.stashClone(c, c.Clone())
		// the handler takes its value back before returning (executions of the explorer share the process)
		c.QueryParams().Del("mark")
		w.respond(c)
	}))
	// a slash-adjusted match whose handler keeps a Clone
	must(f.Handle("GET", "/ic/{a}/", func(c fox.Context) {
		w.observe(c, "/ic/{a}/", fox.RouteHandler, []string{"a"}, true)
		c.SetHeader("X-Early", w.cur.tok)
		w.stashClone(c, c.Clone())
		w.respond(c)
	}, fox.WithIgnoreTrailingSlash(true)))
	// slash-adjusted matches found while the lookup runs on a pooled sub-context (second infix catch-all)
	must(f.Handle("GET", "/d/*{w}/m/*{a}/z/", func(c fox.Context) {
		w.observe(c, "/d/*{w}/m/*{a}/z/", fox.RouteHandler, []string{"w", "a"}, true)
		w.respond(c)
	}, fox.WithIgnoreTrailingSlash(true)))
	// the handler looks another request up while its own context is live, then re-reads its own
	must(f.Handle("GET", "/hl/{a}", func(c fox.Context) {
		w.observe(c, "/hl/{a}", fox.RouteHandler, []string{"a"}, true)
		outer := w.cur
		inner := &reqInfo{tok: outer.tok + "i", kind: outer.kind}
		w.cur = inner
		rt, cc, _ := w.f.Lookup(fx.WrapRW(fx.NewRW()), w.req("GET", "", "/u/"+inner.tok+"a/"+inner.tok+"b"))
		if rt == nil || cc == nil {
			w.bad("inner Lookup found nothing")
		} else {
			w.observe(cc, "/u/{a}/{b}", fox.RouteHandler, []string{"a", "b"}, true)
			w.cur = outer
			w.observe(c, "/hl/{a}", fox.RouteHandler, []string{"a"}, true)
			w.cur = inner
			w.observe(cc, "/u/{a}/{b}", fox.RouteHandler, []string{"a", "b"}, true)
			cc.Close()
		}
		w.cur = outer
		w.observe(c, "/hl/{a}", fox.RouteHandler, []string{"a"}, true)
		w.respond(c)
	}))
	if withHost {
		// another method's hostname routes fork after a hostname parameter: the lazy lookup made for the
		// Allow header backtracks inside the hostname tree
		must(f.Handle("POST", "{h}.api.host3/x/{a}", func(c fox.Context) { w.bad("POST handler must not run") }))
		must(f.Handle("POST", "{h}.{w}.host3/x/{a}", func(c fox.Context) { w.bad("POST handler must not run") }))
		// ... and on the sub-context of the hostname lookup
		must(f.Handle("GET", "{h}.host2/f/*{w}/meta/", func(c fox.Context) {
			w.observe(c, "{h}.host2/f/*{w}/meta/", fox.RouteHandler, []string{"h", "w"}, true)
			w.respond(c)
		}, fox.WithIgnoreTrailingSlash(true)))
		// a static-hostname route with a path parameter, reached by an ignored trailing slash; its handler
		// looks up another slash-adjusted request while its own context is live
		must(f.Handle("GET", "static.host/hi/{a}/", func(c fox.Context) {
			w.observe(c, "static.host/hi/{a}/", fox.RouteHandler, []string{"a"}, true)
			outer := w.cur
			inner := &reqInfo{tok: outer.tok + "i", kind: outer.kind}
			w.cur = inner
			rt, cc, tsr := w.f.Lookup(fx.WrapRW(fx.NewRW()), w.req("GET", "", "/i/"+inner.tok+"a"))
			if rt == nil || cc == nil || !tsr {
				w.bad("inner Lookup found nothing")
			} else {
				w.observe(cc, "/i/{a}/", fox.RouteHandler, []string{"a"}, true)
				w.cur = outer
				w.observe(c, "static.host/hi/{a}/", fox.RouteHandler, []string{"a"}, true)
				w.cur = inner
				w.observe(cc, "/i/{a}/", fox.RouteHandler, []string{"a"}, true)
				cc.Close()
			}
			w.cur = outer
			w.observe(c, "static.host/hi/{a}/", fox.RouteHandler, []string{"a"}, true)
			w.respond(c)
		}, fox.WithIgnoreTrailingSlash(true)))
		// a hostname route switches the GET tree to hostname mode (different reset path in lookup)
		must(f.Handle("GET", "{h}.host/x/{a}", func(c fox.Context) {
			w.observe(c, "{h}.host/x/{a}", fox.RouteHandler, []string{"h", "a"}, true)
			w.respond(c)
		}))
	}
	must(f.Handle("GET", "/in/*{w}/end/{a}", func(c fox.Context) {
		w.observe(c, "/in/*{w}/end/{a}", fox.RouteHandler, []string{"w", "a"}, true)
		w.respond(c)
	}))
	return w
}

func (w *world) req(method, host, path string) *http.Request {
	r := fx.Req(method, host, path)
	if w.cur.sameQuery {
		r.URL.RawQuery = "same=1"
	} else if !w.cur.noQuery {
		r.URL.RawQuery = "q=" + w.cur.tok
	}
	r.Header.Set("X-Tok", w.cur.tok)
	r.RemoteAddr = w.remoteOf() + ":1234"
	return r
}

// remoteOf derives a remote address from the request's token, so that every request (inner ones too) has its own.
func (w *world) remoteOf() string {
	h := fnv.New32a()
	h.Write([]byte(w.cur.tok))
	v := h.Sum32()
	return fmt.Sprintf("10.%d.%d.%d", v>>16&0xff, v>>8&0xff, v&0xff|1)
}

// issue performs one request of the given kind.
func (w *world) issue(kind int) {
	w.serial++
	tok := fmt.Sprintf("t%d%c", w.serial, 'A'+kind)
	w.cur = &reqInfo{tok: tok, kind: kind, noQuery: kind == kNoQueryMark, sameQuery: kind == kSameQuery}
	rw := fx.NewRW()
	wantObserved := true
	switch kind {
	case kDirect:
		w.f.ServeHTTP(rw, w.req("GET", "", "/u/"+tok+"a/"+tok+"b"))
	case kIgnoreSlash:
		w.f.ServeHTTP(rw, w.req("GET", "", "/i/"+tok+"a"))
	case kRedirect:
		w.f.ServeHTTP(rw, w.req("GET", "", "/r/"+tok+"a"))
		if rw.Code != 301 {
			w.bad("redirect request got status %d", rw.Code)
		}
	case kNotFound:
		w.f.ServeHTTP(rw, w.req("GET", "", "/nf/"+tok))
	case kNoMethod:
		w.f.ServeHTTP(rw, w.req("POST", "", "/u/"+tok+"a/"+tok+"b"))
	case kOptions:
		w.f.ServeHTTP(rw, w.req("OPTIONS", "", "/u/"+tok+"a/"+tok+"b"))
	case kCloneWith:
		w.f.ServeHTTP(rw, w.req("GET", "", "/cw/"+tok+"a"))
	case kCloneStash:
		w.f.ServeHTTP(rw, w.req("GET", "", "/cl/"+tok+"a"))
	case kHostDirect:
		w.f.ServeHTTP(rw, w.req("GET", tok+"a.host", "/x/"+tok+"b"))
	case kInfix:
		w.f.ServeHTTP(rw, w.req("GET", "", "/in/"+tok+"a/end/"+tok+"b"))
	case kNoQueryMark:
		w.f.ServeHTTP(rw, w.req("GET", "", "/nq/"+tok+"a"))
	case kIgnoreAtParamChild:
		w.f.ServeHTTP(rw, w.req("GET", "", "/tw/"+tok+"a/foo/"))
	case kIgnoreCloneWith:
		w.f.ServeHTTP(rw, w.req("GET", "", "/icw/"+tok+"a"))
	case kHijack:
		w.f.ServeHTTP(hijackRW{rw}, w.req("GET", "", "/hj/"+tok+"a"))
		if rw.Code != 0 || len(rw.Body) != 0 {
			w.bad("a request whose handler only hijacked the connection got status=%d body=%d through the writer", rw.Code, len(rw.Body))
		}
	case kBrokenWriter:
		w.f.ServeHTTP(brokenRW{rw}, w.req("GET", "", "/bw/"+tok+"a"))
		if len(rw.Body) != 0 {
			w.bad("a writer that fails every write holds %d body bytes", len(rw.Body))
		}
	case kSameQuery:
		w.f.ServeHTTP(rw, w.req("GET", "", "/sq/"+tok+"a"))
	case kHandlerLookup:
		w.f.ServeHTTP(rw, w.req("GET", "", "/hl/"+tok+"a"))
	case kIgnoreCloneStash:
		w.f.ServeHTTP(rw, w.req("GET", "", "/ic/"+tok+"a"))
	case kHostIgnoreLookup:
		w.f.ServeHTTP(rw, w.req("GET", "static.host", "/hi/"+tok+"a"))
	case kHostFork405:
		w.f.ServeHTTP(rw, w.req("GET", tok+"a.apx.host3", "/x/"+tok+"b"))
	case kInfix2Ignore:
		w.f.ServeHTTP(rw, w.req("GET", "", "/d/"+tok+"a/m/"+tok+"b/z"))
	case kHostInfixIgnore:
		w.f.ServeHTTP(rw, w.req("GET", tok+"a.host2", "/f/"+tok+"b/meta"))
	case kIterBreak:
		// every iterator consumed completely once and left at its first element once
		it := w.f.Iter()
		for _, full := range []bool{true, false} {
			for range it.Methods() {
				if !full {
					break
				}
			}
			for range it.All() {
				if !full {
					break
				}
			}
			for range it.Prefix(it.Methods(), "/u") {
				if !full {
					break
				}
			}
			for range it.Routes(it.Methods(), "/u/{a}/{b}") {
				if !full {
					break
				}
			}
			for range it.Reverse(it.Methods(), "", "/u/"+tok+"a/"+tok+"b") {
				if !full {
					break
				}
			}
		}
		w.cur.observed = true
	case kLookupClose, kLookupClone:
		frw := fx.WrapRW(rw)
		frw.Header().Set("X-Mine", tok)
		frw.WriteHeader(200 + len(tok))
		rt, cc, _ := w.f.Lookup(frw, w.req("GET", "", "/u/"+tok+"a/"+tok+"b"))
		if rt == nil || cc == nil {
			w.bad("Lookup found nothing")
			break
		}
		w.observe(cc, "/u/{a}/{b}", fox.RouteHandler, []string{"a", "b"}, false)
		if cc.Writer() != fox.ResponseWriter(frw) {
			w.bad("Lookup context does not carry the given writer")
		}
		if kind == kLookupClone {
			w.stashClone(cc, cc.Clone())
		}
		cc.Close()
		wantObserved = true
	}
	if wantObserved && !w.cur.observed {
		w.bad("no handler observed the request (status %d)", rw.Code)
	}
	if kind != kLookupClose && kind != kLookupClone && kind != kRedirect && kind != kIterBreak && kind != kHijack && kind != kBrokenWriter {
		n := len(tok)
		if rw.Code != 200+n || string(rw.Body) != tok || rw.H.Get("X-Resp") != tok {
			w.bad("response status=%d body=%q X-Resp=%q, want %d/%q/%q", rw.Code, rw.Body, rw.H.Get("X-Resp"), 200+n, tok, tok)
		}
	}
	w.recheck("after request " + tok)
}

// Seq is a request sequence; Replace[i] replaces the tree (a Handle) before request i.
type Seq struct {
	Kinds   []int  `json:"kinds"`
	Replace []bool `json:"replace"`
	Host    bool   `json:"host,omitempty"` // the router also has a hostname route
}

func (s Seq) String() string {
	var parts []string
	for i, k := range s.Kinds {
		if s.Replace[i] {
			parts = append(parts, "[new tree]")
		}
		parts = append(parts, kindNames[k])
	}
	if s.Host {
		return strings.Join(parts, " -> ") + " (router with a hostname route)"
	}
	return strings.Join(parts, " -> ")
}

func seqScenario(s Seq) *mc.Scenario {
	js, _ := json.Marshal(s)
	return &mc.Scenario{
		Name:       string(js),
		PoolChoice: true,
		Require:    []vs.OpKind{vs.OpPoolGet, vs.OpPoolPut, vs.OpLoad},
		Build: func() *mc.Instance {
			w := newWorld(s.Host)
			return &mc.Instance{
				Bodies: []func(){func() {
					for i, k := range s.Kinds {
						if s.Replace[i] {
							w.f.Handle("GET", fmt.Sprintf("/extra%d/{x}/{y}/{z}", i), func(c fox.Context) {})
						}
						w.issue(k)
					}
				}},
				Check: func(x *mc.Exec) (string, string, string) {
					if pv, stk := x.S.PanicOf(0); pv != nil {
						return "panic", "panic", fmt.Sprintf("sequence %s panicked: %v\n%s", s, pv, firstLines(stk, 16))
					}
					if len(w.errs) > 0 {
						cls := "stale-context"
						if strings.HasPrefix(w.errs[0], "clone of") {
							cls = "clone-unstable"
						}
						return "leak", cls, fmt.Sprintf("sequence %s:\n      %s", s, strings.Join(w.errs, "\n      "))
					}
					return "ok", "", ""
				},
			}
		},
	}
}

func dedupSeqs(in []Seq) []Seq {
	seen := map[string]bool{}
	var out []Seq
	for _, s := range in {
		k := fmt.Sprint(s)
		if !seen[k] {
			seen[k] = true
			out = append(out, s)
		}
	}
	return out
}

func sequences(maxLen int, kinds []int, withReplace bool) []Seq {
	var out []Seq
	var rec func(cur []int)
	rec = func(cur []int) {
		if len(cur) > 0 {
			n := len(cur)
			masks := 1
			if withReplace {
				masks = 1 << (n - 1)
			}
			for m := 0; m < masks; m++ {
				rp := make([]bool, n)
				for i := 1; i < n; i++ {
					rp[i] = m&(1<<(i-1)) != 0
				}
				hasHostKind := false
				for _, k := range cur {
					if k == kHostDirect || k == kHostIgnoreLookup || k == kHostInfixIgnore || k == kHostFork405 {
						hasHostKind = true
					}
				}
				out = append(out, Seq{Kinds: append([]int{}, cur...), Replace: rp, Host: true})
				if !hasHostKind {
					out = append(out, Seq{Kinds: append([]int{}, cur...), Replace: rp, Host: false})
				}
			}
		}
		if len(cur) == maxLen {
			return
		}
		for _, k := range kinds {
			rec(append(cur, k))
		}
	}
	rec(nil)
	return out
}

func allKinds() []int {
	ks := make([]int, nKinds)
	for i := range ks {
		ks[i] = i
	}
	return ks
}

// concurrent: two threads serving different tagged requests.
func concScenarios() []*mc.Scenario {
	pairs := [][2]int{{kDirect, kCloneWith}, {kIgnoreSlash, kNotFound}, {kCloneStash, kDirect}, {kLookupClose, kIgnoreSlash}, {kHostDirect, kInfix}, {kInfix, kInfix}, {kHostDirect, kHostDirect}, {kCloneWith, kCloneWith}}
	var out []*mc.Scenario
	for _, p := range pairs {
		p := p
		out = append(out, &mc.Scenario{
			Name: fmt.Sprintf("concurrent %s || %s", kindNames[p[0]], kindNames[p[1]]),
			Build: func() *mc.Instance {
				// each thread has its own world bookkeeping but they share the router: build one world per
				// thread sharing handlers is not possible, so the shared router routes by token to the
				// issuing thread's bookkeeping.
				w := newSharedWorld()
				return &mc.Instance{
					Bodies: []func(){
						func() { w.issueAs(0, p[0]); w.issueAs(0, p[1]) },
						func() { w.issueAs(1, p[1]); w.issueAs(1, p[0]) },
					},
					Check: func(x *mc.Exec) (string, string, string) {
						if x.S.Deadlock {
							return "deadlock", "deadlock", x.S.DeadInfo
						}
						for i := 0; i < 2; i++ {
							if pv, stk := x.S.PanicOf(i); pv != nil {
								return "panic", "panic", fmt.Sprintf("%v\n%s", pv, mc.NormStack(stk, 10))
							}
						}
						errs := append(append([]string{}, w.ws[0].errs...), w.ws[1].errs...)
						if len(errs) > 0 {
							return "leak", "stale-context", strings.Join(errs, "\n      ")
						}
						return "ok", "", ""
					},
				}
			},
		})
	}
	return out
}

// sharedWorld: two bookkeeping worlds on one router; the running thread selects the world.
type sharedWorld struct {
	ws [2]*world
}

func newSharedWorld() *sharedWorld {
	sw := &sharedWorld{}
	base := newWorldWith(func() *world { return sw.ws[vs.ThreadID()] })
	sw.ws[0] = base
	sw.ws[1] = &world{f: base.f, serial: 100}
	return sw
}

func (sw *sharedWorld) issueAs(t, kind int) { sw.ws[t].issue(kind) }

// newWorldWith builds the router with handlers that resolve their world dynamically.
func newWorldWith(sel func() *world) *world {
	w := newWorld(true)
	// rebuild the router with indirection: simplest is to re-register handlers through a proxy world
	px := &world{}
	_ = px
	f, err := fox.New(
		fox.WithNoRouteHandler(func(c fox.Context) { x := sel(); x.observe(c, "", fox.NoRouteHandler, nil, true); x.respond(c) }),
		fox.WithNoMethodHandler(func(c fox.Context) { x := sel(); x.observe(c, "", fox.NoMethodHandler, nil, true); x.respond(c) }),
		fox.WithOptionsHandler(func(c fox.Context) { x := sel(); x.observe(c, "", fox.OptionsHandler, nil, true); x.respond(c) }),
	)
	if err != nil {
		panic(err)
	}
	reg := func(pattern string, names []string, extra func(x *world, c fox.Context), opts ...fox.RouteOption) {
		if _, err := f.Handle("GET", pattern, func(c fox.Context) {
			x := sel()
			x.observe(c, pattern, fox.RouteHandler, names, true)
			vs.Step("in-handler")
			x.observe(c, pattern, fox.RouteHandler, names, true)
			if extra != nil {
				extra(x, c)
			}
			x.respond(c)
		}, opts...); err != nil {
			panic(err)
		}
	}
	reg("/u/{a}/{b}", []string{"a", "b"}, nil)
	reg("/i/{a}/", []string{"a"}, nil, fox.WithIgnoreTrailingSlash(true))
	reg("/cw/{a}", []string{"a"}, func(x *world, c fox.Context) {
		cc := c.CloneWith(fx.WrapRW(fx.NewRW()), c.Request())
		vs.Step("clonewith")
		x.observe(cc, "/cw/{a}", fox.RouteHandler, []string{"a"}, true)
		cc.Close()
		x.cloneWithOther(c)
	})
	reg("/cl/{a}", []string{"a"}, func(x *world, c fox.Context) { x.stashClone(c, c.Clone()) })
	reg("{h}.host/x/{a}", []string{"h", "a"}, nil)
	reg("/in/*{w}/end/{a}", []string{"w", "a"}, nil)
	w.f = f
	return w
}

// cloneWithOther hands CloneWith a request that differs from the context's own (another query, another header):
// the clone must read every request-derived getter from the request it was given.
func (w *world) cloneWithOther(c fox.Context) {
	r2 := c.Request().Clone(c.Request().Context())
	r2.URL.RawQuery = "q=" + w.cur.tok + "-other&only=" + w.cur.tok
	r2.Header.Set("X-Tok", w.cur.tok+"-other")
	cc := c.CloneWith(fx.WrapRW(fx.NewRW()), r2)
	if cc.Request() != r2 {
		w.bad("CloneWith(w, r2).Request() is not r2")
	}
	if g := cc.QueryParam("q"); g != w.cur.tok+"-other" {
		w.bad("CloneWith(w, r2).QueryParam(q) = %q, want the value of r2 (%q)", g, w.cur.tok+"-other")
	}
	if g := cc.QueryParams().Get("only"); g != w.cur.tok {
		w.bad("CloneWith(w, r2).QueryParams()[only] = %q, want the value of r2", g)
	}
	if g := cc.Header("X-Tok"); g != w.cur.tok+"-other" {
		w.bad("CloneWith(w, r2).Header(X-Tok) = %q, want the value of r2", g)
	}
	if c.QueryParam("q") != w.cur.tok || c.QueryParam("only") != "" {
		w.bad("after CloneWith(w, r2) the parent reads QueryParam(q) = %q, only = %q", c.QueryParam("q"), c.QueryParam("only"))
	}
	cc.Close()
}

// hijackRW is an underlying writer whose connection can be taken over.
// brokenRW fails every write (the peer closed the connection).
type brokenRW struct{ *fx.RW }

func (b brokenRW) Write([]byte) (int, error) { return 0, io.ErrClosedPipe }

type hijackRW struct{ *fx.RW }

func (h hijackRW) Hijack() (net.Conn, *bufio.ReadWriter, error) {
	a, b := net.Pipe()
	b.Close()
	return a, nil, nil
}

func init() {
	mc.Register(&mc.Check{
		ID:    "C12",
		Level: "model_checking",
		Rule: "every sequence up to a length of requests from a 25-kind alphabet (direct, ignored slash, redirect, 404, 405, OPTIONS, manual Lookup(+Clone), CloneWith, Clone, hostname, infix catch-all, every iterator consumed fully and left at its first element, a handler doing a Lookup for another request, a slash-adjusted match whose handler keeps a Clone, a static-hostname slash-adjusted match whose handler looks up another slash-adjusted request), with an optional tree replacement before each request, x EVERY answer of the context pool at every Pool.Get (any of the pooled contexts or a fresh one: data choice points of the controlled scheduler); every request carries a unique token in every observable field and every Context getter is checked inside every handler; stashed clones are re-read after every later request; " +
			"plus two-thread schedules; distinct_nontrivial = distinct (sequence, outcome) classes",
		Assumptions: []string{
			"sync.Pool may return any previously Put object or a fresh one: the shim makes that choice explicit and the explorer enumerates it",
		},
		Parts: []mc.Part{
			{Name: "sequences", Run: func(c *mc.Ctx, r *mc.Result) {
				maxLen := 3
				kinds := allKinds()
				var seqs []Seq
				if c.Quick() {
					seqs = sequences(2, kinds, true)
					// length 3 over the kinds that leave most state behind
					seqs = dedupSeqs(append(seqs, sequences(3, []int{kIgnoreSlash, kNotFound, kLookupClone, kCloneStash, kDirect, kHandlerLookup, kIgnoreCloneStash, kHostIgnoreLookup, kInfix2Ignore, kHostInfixIgnore, kHostFork405}, false)...))
				} else {
					seqs = sequences(maxLen, kinds, true)
				}
				r.Bounds["sequences"] = fmt.Sprintf("%d sequences (23 kinds; quick: all of length<=2 with tree replacement + length 3 over 11 kinds; thorough: all of length<=3 with tree replacement), unbounded exploration of pool answers", len(seqs))
				for i, s := range seqs {
					if !c.Mine(i) {
						continue
					}
					if c.ExpiredEvery(64) {
						r.NotExhaustive = append(r.NotExhaustive, "sequences: time guard")
						break
					}
					cc := *c
					cc.NShards = 1
					mc.Explore(&cc, r, "sequences", seqScenario(s), mc.ExploreOpts{Bound: -1})
				}
				r.Bounds = map[string]string{"sequences": r.Bounds["sequences"]}
				for k := range r.Counters {
					if strings.HasSuffix(k, ".executions") || strings.HasSuffix(k, ".max_points") {
						delete(r.Counters, k)
					}
				}
				mc.CountNontrivial(r)
			}, Replay: func(c *mc.Ctx, raw json.RawMessage) string {
				var sc struct {
					Scenario string `json:"scenario"`
				}
				json.Unmarshal(raw, &sc)
				var s Seq
				if err := json.Unmarshal([]byte(sc.Scenario), &s); err != nil {
					return "bad scenario"
				}
				return mc.ReplaySched([]*mc.Scenario{seqScenario(s)}, raw)
			}},
			{Name: "concurrent", Run: func(c *mc.Ctx, r *mc.Result) {
				bound := 3
				if c.Quick() {
					bound = 2
				}
				for _, sc := range concScenarios() {
					mc.Explore(c, r, "concurrent", sc, mc.ExploreOpts{Bound: bound})
				}
				mc.CountNontrivial(r)
			}, Replay: func(c *mc.Ctx, raw json.RawMessage) string { return mc.ReplaySched(concScenarios(), raw) }},
		},
	})
}

// firstLines keeps the function names of the top frames of a stack (no goroutine ids, addresses
// or argument values, so that the message is deterministic).
func firstLines(s string, n int) string {
	var out []string
	for _, l := range strings.Split(s, "\n") {
		if l == "" || l[0] == '\t' || strings.HasPrefix(l, "goroutine ") || strings.HasPrefix(l, "created by") {
			continue
		}
		if i := strings.LastIndexByte(l, '('); i > 0 {
			l = l[:i]
		}
		out = append(out, "        at "+l)
		if len(out) == n {
			break
		}
	}
	return strings.Join(out, "\n")
}
