package ref

import (
	"net/netip"
	"strings"
)

// ParseEntry is the reference for one X-Forwarded-For list entry: an IP address, optionally with a
// port ("v4:port", "[v6]:port"), brackets or a zone; invalid and unspecified addresses are no
// address at all (ok=false).
func ParseEntry(s string) (netip.Addr, bool) {
	s = strings.TrimSpace(s)
	addr := s
	switch {
	case strings.HasPrefix(s, "["):
		end := strings.IndexByte(s, ']')
		if end < 0 {
			return netip.Addr{}, false
		}
		rest := s[end+1:]
		// after the closing bracket: nothing, or ":port" (a port contains no colon and no bracket)
		if rest != "" && (!strings.HasPrefix(rest, ":") || strings.ContainsAny(rest[1:], ":[]")) {
			return netip.Addr{}, false
		}
		addr = s[1:end]
	case strings.Count(s, ":") == 1:
		i := strings.IndexByte(s, ':')
		if strings.ContainsAny(s[i+1:], "[]") {
			return netip.Addr{}, false
		}
		addr = s[:i]
	}
	a, err := netip.ParseAddr(addr)
	if err != nil {
		return netip.Addr{}, false
	}
	// (a zone does not make the unspecified address an address; netip compares the zone too)
	if a.WithZone("").Unmap().IsUnspecified() {
		return netip.Addr{}, false
	}
	return a, true
}

// ParseForwarded is the reference for one Forwarded list element: the value of its "for"
// parameter (among the first four parameters), optionally quoted.
func ParseForwarded(s string) (netip.Addr, bool) {
	parts := strings.Split(s, ";")
	if len(parts) > 4 {
		parts = parts[:4]
	}
	for _, p := range parts {
		p = strings.TrimSpace(p)
		kv := strings.SplitN(p, "=", 2)
		if len(kv) != 2 || !strings.EqualFold(kv[0], "for") {
			continue
		}
		v := strings.TrimSpace(kv[1])
		if len(v) >= 2 && v[0] == '"' && v[len(v)-1] == '"' {
			v = v[1 : len(v)-1]
		}
		if v == "" {
			return netip.Addr{}, false
		}
		return ParseEntry(v)
	}
	return netip.Addr{}, false
}

// Entry is one flattened list entry.
type Entry struct {
	Addr netip.Addr
	OK   bool
}

// Flatten splits the header lines into entries, left to right.
func Flatten(lines []string, forwarded bool) []Entry {
	var out []Entry
	for _, l := range lines {
		for _, raw := range strings.Split(l, ",") {
			var e Entry
			if forwarded {
				e.Addr, e.OK = ParseForwarded(strings.TrimSpace(raw))
			} else {
				e.Addr, e.OK = ParseEntry(raw)
			}
			out = append(out, e)
		}
	}
	return out
}

// InRanges reports whether a is inside one of the prefixes.
func InRanges(a netip.Addr, ranges []netip.Prefix) bool {
	a = a.Unmap().WithZone("")
	for _, p := range ranges {
		if p.Contains(a) {
			return true
		}
	}
	return false
}

// RightmostTrustedCount: the n-th entry from the right; ok=false means an error is expected.
func RightmostTrustedCount(es []Entry, n int) (netip.Addr, bool) {
	if n <= 0 || len(es) < n {
		return netip.Addr{}, false
	}
	e := es[len(es)-n]
	return e.Addr, e.OK
}

// RightmostNonPrivate: the rightmost valid address outside the trusted ranges.
func RightmostNonPrivate(es []Entry, trusted []netip.Prefix) (netip.Addr, bool) {
	for i := len(es) - 1; i >= 0; i-- {
		if es[i].OK && !InRanges(es[i].Addr, trusted) {
			return es[i].Addr, true
		}
	}
	return netip.Addr{}, false
}

// RightmostTrustedRange: the first entry from the right that is not a trusted address; an error
// if that entry is not an address at all, or if every entry is trusted.
func RightmostTrustedRange(es []Entry, trusted []netip.Prefix) (netip.Addr, bool) {
	for i := len(es) - 1; i >= 0; i-- {
		if es[i].OK && InRanges(es[i].Addr, trusted) {
			continue
		}
		return es[i].Addr, es[i].OK
	}
	return netip.Addr{}, false
}

// LeftmostNonPrivate: the first valid non-excluded address among the first limit entries.
func LeftmostNonPrivate(es []Entry, excluded []netip.Prefix, limit int) (netip.Addr, bool) {
	for i := 0; i < len(es) && i < limit; i++ {
		if es[i].OK && !InRanges(es[i].Addr, excluded) {
			return es[i].Addr, true
		}
	}
	return netip.Addr{}, false
}

// SpecialPurpose lists every block of the IANA IPv4 / IPv6 special-purpose address registries,
// plus multicast and the reserved class E space: an address outside all of them is ordinary,
// globally routable unicast space.
var SpecialPurpose = mustPrefixes(
	// IPv4 special-purpose registry
	"0.0.0.0/8", "10.0.0.0/8", "100.64.0.0/10", "127.0.0.0/8", "169.254.0.0/16", "172.16.0.0/12",
	"192.0.0.0/24", "192.0.2.0/24", "192.31.196.0/24", "192.52.193.0/24", "192.88.99.0/24",
	"192.168.0.0/16", "192.175.48.0/24", "198.18.0.0/15", "198.51.100.0/24", "203.0.113.0/24",
	"240.0.0.0/4", "255.255.255.255/32",
	// multicast
	"224.0.0.0/4", "ff00::/8",
	// IPv6 special-purpose registry
	"::1/128", "::/128", "::ffff:0:0/96", "64:ff9b::/96", "64:ff9b:1::/48", "100::/64", "2001::/23",
	"2001:db8::/32", "2002::/16", "2620:4f:8000::/48", "3fff::/20", "5f00::/16", "fc00::/7", "fe80::/10",
)

func mustPrefixes(ss ...string) []netip.Prefix {
	out := make([]netip.Prefix, len(ss))
	for i, s := range ss {
		out[i] = netip.MustParsePrefix(s)
	}
	return out
}
