package ref

import (
	"net"
	"strings"
)

// RRoute is a registered route in the reference model.
type RRoute struct {
	Pat    *Pattern
	ID     int  // caller-defined identity
	Ignore bool // ignore trailing slash
	Redir  bool // redirect trailing slash
}

// trie is an uncompressed token trie.
type trie struct {
	static   map[byte]*trie
	param    *trie
	pname    string
	catchall *trie
	cname    string
	route    *RRoute // pattern ends here
	pathRoot *trie   // host trie only: sub-trie for the path once the whole host is consumed
}

func (t *trie) insertToks(toks []Token) *trie {
	n := t
	for _, tk := range toks {
		switch tk.Kind {
		case Static:
			if n.static == nil {
				n.static = map[byte]*trie{}
			}
			c := n.static[tk.Lit]
			if c == nil {
				c = &trie{}
				n.static[tk.Lit] = c
			}
			n = c
		case Param:
			if n.param == nil {
				n.param = &trie{}
				n.pname = tk.Name
			}
			n = n.param
		case CatchAll:
			if n.catchall == nil {
				n.catchall = &trie{}
				n.cname = tk.Name
			}
			n = n.catchall
		}
	}
	return n
}

// Matcher matches requests of one method against a set of routes.
type Matcher struct {
	hostTrie *trie // routes with hostname
	pathTrie *trie // path-only routes
	hasHost  bool
	hasPath  bool
	// LaxPrefixedCatchAll: reading in which a suffix catch-all that follows static text inside its
	// segment may capture a value starting with '/' (README example /src/file=/dir/config.txt).
	LaxPrefixedCatchAll bool
}

// NewMatcher builds the reference matcher for the routes of one method.
func NewMatcher(routes []*RRoute) *Matcher {
	m := &Matcher{hostTrie: &trie{}, pathTrie: &trie{}}
	for _, r := range routes {
		if len(r.Pat.HostToks) > 0 {
			m.hasHost = true
			h := m.hostTrie.insertToks(r.Pat.HostToks)
			if h.pathRoot == nil {
				h.pathRoot = &trie{}
			}
			h.pathRoot.insertToks(r.Pat.PathToks).route = r
		} else {
			m.hasPath = true
			m.pathTrie.insertToks(r.Pat.PathToks).route = r
		}
	}
	return m
}

// KV is one captured parameter.
type KV struct{ K, V string }

// Result of a reference lookup.
type Result struct {
	Route      *RRoute
	Params     []KV
	Tsr        bool
	Backtracks int // failed sub-searches of the reference (a measure of how contested the request was)
}

// StripHost removes a port and one trailing dot (reference for the documented host normalisation).
func StripHost(h string) string {
	if h == "" {
		return h
	}
	if strings.Contains(h, ":") {
		host, _, err := net.SplitHostPort(h)
		if err != nil {
			return h
		}
		h = host
	}
	return strings.TrimSuffix(h, ".")
}

type search struct {
	backtracks   int
	lax          bool
	lastIsStatic bool // tsr "add" mode: the final byte of the input must be consumed by a static token
	caps         []KV
}

// matchPath searches t for input[pos:]; delim is the segment delimiter.
func (s *search) matchPath(t *trie, in string, pos int, prevStaticInSeg bool) *RRoute {
	if pos == len(in) {
		if t.route != nil {
			return t.route
		}
		return nil
	}
	c := in[pos]
	// 1. static
	if n := t.static[c]; n != nil {
		if pos == len(in)-1 && s.lastIsStatic {
			// fine: consumed by static
		}
		if r := s.matchPath(n, in, pos+1, c != '/'); r != nil {
			return r
		}
		if pos+1 < len(in) || n.route != nil || n.param != nil || n.catchall != nil {
			s.backtracks++
		}
	}
	// 2. named parameter: exactly one non-empty segment remainder
	if t.param != nil {
		end := strings.IndexByte(in[pos:], '/')
		if end < 0 {
			end = len(in)
		} else {
			end += pos
		}
		if end > pos {
			if !(s.lastIsStatic && end == len(in)) { // cannot happen in add mode (input ends with '/'), kept for clarity
				s.caps = append(s.caps, KV{t.pname, in[pos:end]})
				if r := s.matchPath(t.param, in, end, true); r != nil {
					return r
				}
				s.backtracks++
				s.caps = s.caps[:len(s.caps)-1]
			}
		}
	}
	// 3. catch-all: one or more non-empty segments
	if t.catchall != nil {
		n := t.catchall
		suffix := n.route != nil && len(n.static) == 0
		_ = suffix
		// candidate ends, shortest first: every position of a '/' after pos (infix), then end of input (suffix)
		startsWithSlash := c == '/'
		if !startsWithSlash || (s.lax && prevStaticInSeg) {
			for e := pos + 1; e <= len(in); e++ {
				if e < len(in) && in[e] != '/' {
					continue
				}
				if e < len(in) {
					// infix: the capture must be followed by a '/' consumed by the pattern, and must not end with '/'
					if in[e-1] == '/' || startsWithSlash {
						continue
					}
					if n.static['/'] == nil {
						continue
					}
				} else {
					// suffix: the pattern must end here
					if n.route == nil {
						continue
					}
					if s.lastIsStatic {
						continue // the added slash would be swallowed by the wildcard
					}
				}
				s.caps = append(s.caps, KV{t.cname, in[pos:e]})
				if r := s.matchPath(n, in, e, true); r != nil {
					return r
				}
				s.backtracks++
				s.caps = s.caps[:len(s.caps)-1]
			}
		}
	}
	return nil
}

// matchHost searches the host trie: host labels first, then the path under the node reached.
func (s *search) matchHost(t *trie, host string, pos int, path string) *RRoute {
	if pos == len(host) {
		if t.pathRoot != nil {
			mark := len(s.caps)
			if r := s.matchPath(t.pathRoot, path, 0, false); r != nil {
				return r
			}
			s.caps = s.caps[:mark]
		}
		return nil
	}
	c := host[pos]
	if n := t.static[c]; n != nil {
		if r := s.matchHost(n, host, pos+1, path); r != nil {
			return r
		}
	}
	if t.param != nil {
		end := strings.IndexByte(host[pos:], '.')
		if end < 0 {
			end = len(host)
		} else {
			end += pos
		}
		if end > pos {
			s.caps = append(s.caps, KV{t.pname, host[pos:end]})
			if r := s.matchHost(t.param, host, end, path); r != nil {
				return r
			}
			s.caps = s.caps[:len(s.caps)-1]
		}
	}
	return nil
}

func (m *Matcher) direct(host, path string, useHost bool) (*RRoute, []KV, int) {
	s := &search{lax: m.LaxPrefixedCatchAll}
	var r *RRoute
	if useHost {
		r = s.matchHost(m.hostTrie, host, 0, path)
	} else {
		r = s.matchPath(m.pathTrie, path, 0, false)
	}
	if r == nil {
		return nil, nil, s.backtracks
	}
	return r, append([]KV(nil), s.caps...), s.backtracks
}

func (m *Matcher) adjusted(host, path string, useHost bool) (*RRoute, []KV, int) {
	// "for a request path other than '/'": the empty path (authority-form CONNECT, absolute-form target without a
	// path) is eligible, adding a slash makes it "/"
	if path == "/" {
		return nil, nil, 0
	}
	s := &search{lax: m.LaxPrefixedCatchAll}
	adj := path
	if strings.HasSuffix(path, "/") {
		adj = path[:len(path)-1]
	} else {
		adj = path + "/"
		s.lastIsStatic = true
	}
	var r *RRoute
	if useHost {
		r = s.matchHost(m.hostTrie, host, 0, adj)
	} else {
		r = s.matchPath(m.pathTrie, adj, 0, false)
	}
	if r == nil {
		return nil, nil, s.backtracks
	}
	return r, append([]KV(nil), s.caps...), s.backtracks
}

// Lookup is the reference for Router.Lookup/Reverse: direct match, else trailing-slash
// recommendation; hostname routes (direct or adjusted) before path-only routes.
func (m *Matcher) Lookup(hostPort, path string) Result {
	bt := 0
	if m.hasHost {
		host := StripHost(hostPort)
		// a hostname (and so every label part a {param} stands for) contains no slash: such a Host equals no
		// hostname pattern
		if host != "" && !strings.Contains(host, "/") {
			r, kv, b := m.direct(host, path, true)
			bt += b
			if r != nil {
				return Result{Route: r, Params: kv, Backtracks: bt}
			}
			r, kv, b = m.adjusted(host, path, true)
			bt += b
			if r != nil {
				return Result{Route: r, Params: kv, Tsr: true, Backtracks: bt}
			}
		}
	}
	if m.hasPath {
		r, kv, b := m.direct("", path, false)
		bt += b
		if r != nil {
			return Result{Route: r, Params: kv, Backtracks: bt}
		}
		r, kv, b = m.adjusted("", path, false)
		bt += b
		if r != nil {
			return Result{Route: r, Params: kv, Tsr: true, Backtracks: bt}
		}
	}
	return Result{Backtracks: bt}
}

// DirectOnly is the reference for direct matching alone (C01), hostname routes before path-only.
func (m *Matcher) DirectOnly(hostPort, path string) Result {
	bt := 0
	if m.hasHost {
		host := StripHost(hostPort)
		// a hostname (and so every label part a {param} stands for) contains no slash: such a Host equals no
		// hostname pattern
		if host != "" && !strings.Contains(host, "/") {
			r, kv, b := m.direct(host, path, true)
			bt += b
			if r != nil {
				return Result{Route: r, Params: kv, Backtracks: bt}
			}
		}
	}
	if m.hasPath {
		r, kv, b := m.direct("", path, false)
		bt += b
		if r != nil {
			return Result{Route: r, Params: kv, Backtracks: bt}
		}
	}
	return Result{Backtracks: bt}
}

// HasHost reports whether some route of this method has a hostname.
func (m *Matcher) HasHost() bool { return m.hasHost }
