// Package ref holds the reference models (oracles). They are written from the documentation
// (README: pattern grammar, priority rules, hostname routing, trailing slash handling) and are
// deliberately naive: tokenise, build an uncompressed token trie, search recursively.
package ref

import (
	"fmt"
	"strings"
)

// Token kinds.
const (
	Static = iota
	Param
	CatchAll
)

// Token is one unit of a pattern: a literal byte, a {name} or a *{name}.
type Token struct {
	Kind int
	Lit  byte
	Name string
}

// Pattern is a parsed route pattern.
type Pattern struct {
	Raw      string
	HostToks []Token // tokens of the hostname part (empty for path-only patterns)
	PathToks []Token
	HostLen  int // len of the hostname part in Raw
	NParams  int
	Names    []string
	Gray     string // non-empty: the documentation does not decide whether this pattern is valid
}

// Limits are the configurable parser limits (negative = unlimited).
type Limits struct {
	MaxParams   int
	MaxKeyBytes int
}

var NoLimits = Limits{-1, -1}

func isLDH(c byte) bool {
	return c >= 'a' && c <= 'z' || c >= 'A' && c <= 'Z' || c >= '0' && c <= '9' || c == '-'
}

// Parse validates raw against the documented grammar and tokenises it.
func Parse(raw string, lim Limits) (*Pattern, error) {
	p := &Pattern{Raw: raw}
	slash := strings.IndexByte(raw, '/')
	if slash < 0 {
		return nil, fmt.Errorf("no '/' (a pattern is a path, or a hostname followed by a path)")
	}
	host, path := raw[:slash], raw[slash:]
	p.HostLen = slash
	if host != "" {
		total := 0
		nonNumeric := false
		labels := strings.Split(host, ".")
		for li, lab := range labels {
			if lab == "" {
				return nil, fmt.Errorf("empty hostname label")
			}
			static := lab
			name := ""
			hasParam := false
			if i := strings.IndexByte(lab, '{'); i >= 0 {
				static = lab[:i]
				rest := lab[i:]
				if !strings.HasSuffix(rest, "}") || strings.IndexByte(rest, '}') != len(rest)-1 {
					return nil, fmt.Errorf("hostname label %q: a parameter must be written {name} at the end of the label", lab)
				}
				name = rest[1 : len(rest)-1]
				if name == "" {
					return nil, fmt.Errorf("empty parameter name")
				}
				if strings.ContainsAny(name, "{*/") {
					return nil, fmt.Errorf("illegal character in parameter name %q", name)
				}
				if strings.ContainsAny(name, ":[]%") {
					p.Gray = "hostname parameter name containing a character that host:port splitting treats specially"
				}
				hasParam = true
			}
			if strings.ContainsAny(static, "*") {
				return nil, fmt.Errorf("catch-all not allowed in hostname")
			}
			for i := 0; i < len(static); i++ {
				c := static[i]
				if c == '_' {
					p.Gray = "underscore in hostname label (not LDH, but accepted by many resolvers)"
					nonNumeric = true
					continue
				}
				if !isLDH(c) {
					return nil, fmt.Errorf("illegal character %q in hostname label", c)
				}
				if c < '0' || c > '9' {
					nonNumeric = true
				}
			}
			if strings.HasPrefix(static, "-") {
				return nil, fmt.Errorf("hostname label starts with '-'")
			}
			if strings.HasSuffix(static, "-") {
				if hasParam {
					p.Gray = "'-' directly before a label parameter"
				} else {
					return nil, fmt.Errorf("hostname label ends with '-'")
				}
			}
			if len(static) > 63 {
				return nil, fmt.Errorf("hostname label longer than 63")
			}
			total += len(static)
			if li > 0 {
				total++
			}
			for i := 0; i < len(static); i++ {
				p.HostToks = append(p.HostToks, Token{Kind: Static, Lit: static[i]})
			}
			if hasParam {
				nonNumeric = true
				p.HostToks = append(p.HostToks, Token{Kind: Param, Name: name})
				p.Names = append(p.Names, name)
			}
			if li < len(labels)-1 {
				p.HostToks = append(p.HostToks, Token{Kind: Static, Lit: '.'})
			}
		}
		if total > 255 {
			return nil, fmt.Errorf("hostname longer than 255")
		}
		if !nonNumeric {
			return nil, fmt.Errorf("all-numeric hostname")
		}
	}
	// path: segments separated by '/'
	segs := strings.Split(path[1:], "/")
	prevPureCatchAll := false
	for _, seg := range segs {
		p.PathToks = append(p.PathToks, Token{Kind: Static, Lit: '/'})
		i := strings.IndexAny(seg, "{*")
		if i < 0 {
			for j := 0; j < len(seg); j++ {
				p.PathToks = append(p.PathToks, Token{Kind: Static, Lit: seg[j]})
			}
			prevPureCatchAll = false
			continue
		}
		static, rest := seg[:i], seg[i:]
		for j := 0; j < len(static); j++ {
			p.PathToks = append(p.PathToks, Token{Kind: Static, Lit: static[j]})
		}
		kind := Param
		if rest[0] == '*' {
			kind = CatchAll
			rest = rest[1:]
			if rest == "" || rest[0] != '{' {
				return nil, fmt.Errorf("'*' must be followed by {name}")
			}
		}
		// rest starts with '{'
		end := strings.IndexByte(rest, '}')
		if end < 0 {
			return nil, fmt.Errorf("unclosed wildcard")
		}
		if end != len(rest)-1 {
			return nil, fmt.Errorf("a wildcard must be at the end of its segment")
		}
		name := rest[1:end]
		if name == "" {
			return nil, fmt.Errorf("empty wildcard name")
		}
		if strings.ContainsAny(name, "{*") {
			return nil, fmt.Errorf("illegal character in wildcard name %q", name)
		}
		if kind == CatchAll {
			if prevPureCatchAll && static == "" {
				return nil, fmt.Errorf("two catch-alls separated only by a slash")
			}
			prevPureCatchAll = true
		} else {
			prevPureCatchAll = false
		}
		p.PathToks = append(p.PathToks, Token{Kind: kind, Name: name})
		p.Names = append(p.Names, name)
	}
	p.NParams = len(p.Names)
	if lim.MaxParams >= 0 && p.NParams > lim.MaxParams {
		return nil, fmt.Errorf("too many parameters")
	}
	if lim.MaxKeyBytes >= 0 {
		for _, n := range p.Names {
			if len(n) > lim.MaxKeyBytes {
				return nil, fmt.Errorf("parameter name too long")
			}
		}
	}
	return p, nil
}

// MustParse parses a pattern known to be valid.
func MustParse(raw string) *Pattern {
	p, err := Parse(raw, NoLimits)
	if err != nil {
		panic(fmt.Sprintf("ref.MustParse(%q): %v", raw, err))
	}
	return p
}

// Substitute builds host and path from a pattern and one value per wildcard.
func (p *Pattern) Substitute(vals []string) (host, path string) {
	i := 0
	var hb, pb strings.Builder
	for _, t := range p.HostToks {
		if t.Kind == Static {
			hb.WriteByte(t.Lit)
		} else {
			hb.WriteString(vals[i])
			i++
		}
	}
	for _, t := range p.PathToks {
		if t.Kind == Static {
			pb.WriteByte(t.Lit)
		} else {
			pb.WriteString(vals[i])
			i++
		}
	}
	return hb.String(), pb.String()
}

// HasCatchAllFollowedByText reports whether some catch-all is not the last token.
func (p *Pattern) HasCatchAllFollowedByText() bool {
	for i, t := range p.PathToks {
		if t.Kind == CatchAll && i != len(p.PathToks)-1 {
			return true
		}
	}
	return false
}
