package ref

import "strings"

// CleanPath is the split-and-stack reference for fox.CleanPath: rooted, no empty, "." or ".."
// elements (".." removes the preceding element and never rises above the root), trailing slash
// kept exactly when the input ended with a slash or a "." element and the result is not the root.
func CleanPath(p string) string {
	if p == "" {
		return "/"
	}
	elems := strings.Split(p, "/")
	var stack []string
	for _, e := range elems {
		switch e {
		case "", ".":
		case "..":
			if len(stack) > 0 {
				stack = stack[:len(stack)-1]
			}
		default:
			stack = append(stack, e)
		}
	}
	if len(stack) == 0 {
		return "/"
	}
	out := "/" + strings.Join(stack, "/")
	last := elems[len(elems)-1]
	if last == "" || last == "." {
		out += "/"
	}
	return out
}
