package conc

import (
	"fmt"
	"strings"

	"github.com/tigerwill90/fox"
	vs "github.com/tigerwill90/fox/verifsync"

	"verifharness/mc"
)

func init() {
	// every tagged verifPoint inside fox (NewRoute, lookupByPath) is a scheduling point
	fox.VerifHook = vs.HookPoint
}

// Program is a closed concurrent program: an initial registered set and one script per thread.
type Program struct {
	Name    string
	Init    State
	Threads [][]Op
	Opts    func() []fox.GlobalOption
}

func (p *Program) Describe() string {
	var sb strings.Builder
	fmt.Fprintf(&sb, "init=%v", p.Init)
	for i, t := range p.Threads {
		parts := make([]string, len(t))
		for j, o := range t {
			parts[j] = o.String()
		}
		fmt.Fprintf(&sb, " | T%d: %s", i, strings.Join(parts, "; "))
	}
	return sb.String()
}

// LinScenario turns a program into a scheduler scenario whose oracle is: no panic, no deadlock,
// history (plus final reads by the main thread) linearizable w.r.t. the map model.
func LinScenario(p *Program) *mc.Scenario {
	return &mc.Scenario{
		Name:     p.Name,
		Describe: p.Describe(),
		Require:  []vs.OpKind{vs.OpLoad},
		Build: func() *mc.Instance {
			var opts []fox.GlobalOption
			if p.Opts != nil {
				opts = p.Opts()
			}
			f, err := fox.New(opts...)
			if err != nil {
				panic(err)
			}
			Populate(f, p.Init)
			var hist []Event
			bodies := make([]func(), len(p.Threads))
			for ti := range p.Threads {
				ti := ti
				script := p.Threads[ti]
				bodies[ti] = func() {
					for i, o := range script {
						if i > 0 {
							vs.Step("op")
						}
						call := vs.Now()
						out := Do(f, o)
						ret := vs.Now()
						hist = append(hist, Event{Thread: ti, Op: o, Out: out, Call: call, Ret: ret})
					}
				}
			}
			return &mc.Instance{
				Bodies: bodies,
				Check: func(x *mc.Exec) (string, string, string) {
					if x.S.Deadlock {
						return "deadlock", "deadlock", "deadlock: " + x.S.DeadInfo + "\n  program: " + p.Describe() + "\n" + RenderHistory(hist)
					}
					for ti := range p.Threads {
						if pv, stk := x.S.PanicOf(ti); pv != nil {
							return "panic", "panic", fmt.Sprintf("thread %d panicked: %v\n%s\n  program: %s", ti, pv, mc.NormStack(stk, 10), p.Describe())
						}
					}
					// final reads by the main thread
					n := len(p.Threads)
					fin := []Op{{Kind: IterAll}, {Kind: Len}}
					for k := range Keys {
						fin = append(fin, Op{Kind: Serve, Key: k}, Op{Kind: Route, Key: k})
					}
					for _, o := range fin {
						call := vs.Now()
						out := Do(f, o)
						ret := vs.Now()
						hist = append(hist, Event{Thread: n, Op: o, Out: out, Call: call, Ret: ret})
					}
					var ob strings.Builder
					per := make([][]string, n+1)
					for _, e := range hist {
						per[e.Thread] = append(per[e.Thread], e.Out.String())
					}
					for ti, l := range per {
						if ti == n {
							// final state only through IterAll
							fmt.Fprintf(&ob, "final:%s", l[0])
							break
						}
						fmt.Fprintf(&ob, "T%d:%s|", ti, strings.Join(l, ";"))
					}
					if !Linearizable(p.Init, hist) {
						return ob.String(), "not-linearizable", "history is not linearizable w.r.t. the (method,pattern)->version map model\n  program: " + p.Describe() + "\n" + RenderHistory(hist)
					}
					return ob.String(), "", ""
				},
			}
		},
	}
}

func firstLines(s string, n int) string {
	l := strings.Split(s, "\n")
	if len(l) > n {
		l = l[:n]
	}
	return strings.Join(l, "\n")
}
