// Package conc is a small DSL for closed concurrent programs over a fox router: a fixed table of
// keys (method, pattern, probing request), operations on them, threads as operation lists, a
// sequential map model, and a linearizability oracle (porcupine) over the recorded history.
package conc

import (
	"errors"
	"fmt"
	"net/http"
	"sort"
	"strconv"
	"strings"

	"github.com/anishathalye/porcupine"
	"github.com/tigerwill90/fox"
	vs "github.com/tigerwill90/fox/verifsync"

	"verifharness/fx"
)

// Key is one route of the key table.
type Key struct {
	Method, Pattern, Host, Path string
}

// Keys: chosen so that they share radix nodes ("/a" is a prefix of "/ab" and "/a/{x}"; the
// hostname key shares the method root; FOO creates and removes a method root).
var Keys = []Key{
	{"GET", "/a", "", "/a"},
	{"GET", "/ab", "", "/ab"},
	{"GET", "/a/{x}", "", "/a/z"},
	{"GET", "a.b/", "a.b", "/"},
	{"POST", "/a", "", "/a"},
	{"FOO", "/a", "", "/a"},
	// more siblings under the node "/a" (children b, c, d and '/'): children slices with spare
	// capacity and re-sorting on insertion
	{"GET", "/ac", "", "/ac"},
	{"GET", "/ad", "", "/ad"},
	// a static and a parameter sibling: the probing request of key 8 needs a backtrack (static "c", then {x})
	{"GET", "/a/{x}/b", "", "/a/c/b"},
	{"GET", "/a/c/d", "", "/a/c/d"},
}

const NK = 10

// Op kinds.
const (
	Handle  = "Handle"
	Update  = "Update"
	Delete  = "Delete"
	Has     = "Has"
	Route   = "Route"
	Serve   = "Serve"
	Lookup  = "Lookup"
	Reverse = "Reverse"
	IterAll = "IterAll"
	View    = "View" // read-only managed txn: Sub are reads
	Txn     = "Txn"  // write txn: Sub are writes/reads; Commit says how it ends
	Len     = "Len"
	// Allow serves a request with a method no route uses (DELETE) on the key's host and path: the answer
	// (404, or 405 with the Allow set) must correspond to ONE committed state. Needs WithNoMethod(true).
	Allow = "Allow"
	// AllowOptions serves an OPTIONS request on the key's host and path (needs WithAutoOptions(true)):
	// 200 with the Allow set of one committed state plus OPTIONS, or 404.
	AllowOptions = "AllowOptions"
)

// Op is one operation of a thread script.
type Op struct {
	Kind   string `json:"k"`
	Key    int    `json:"key"`
	Ver    int    `json:"v,omitempty"`
	Sub    []Op   `json:"sub,omitempty"`
	Commit bool   `json:"commit,omitempty"`
	StepIn bool   `json:"step,omitempty"` // Txn: scheduling point between sub operations
	End    int    `json:"end,omitempty"`  // Txn: how it ends (EndDefault = per Commit flag)
	Via    bool   `json:"via,omitempty"`  // Handle/Update: through NewRoute + HandleRoute/UpdateRoute
}

// Transaction endings.
const (
	EndDefault = iota // unmanaged: Commit or Abort per the Commit flag
	EndCommit
	EndAbort
	EndUpdatesNil   // managed, function returns nil (commit)
	EndUpdatesErr   // managed, function returns an error (abort)
	EndUpdatesPanic // managed, function panics (abort, panic propagates)
)

func (o Op) commits() bool {
	switch o.End {
	case EndCommit, EndUpdatesNil:
		return true
	case EndAbort, EndUpdatesErr, EndUpdatesPanic:
		return false
	}
	return o.Commit
}

type injectedPanic struct{}

func (o Op) String() string {
	switch o.Kind {
	case Handle, Update:
		kind := o.Kind
		if o.Via {
			kind = "NewRoute+" + kind + "Route"
		}
		return fmt.Sprintf("%s(%s %s,v%d)", kind, Keys[o.Key].Method, Keys[o.Key].Pattern, o.Ver)
	case Txn, View:
		parts := make([]string, len(o.Sub))
		for i, s := range o.Sub {
			parts[i] = s.String()
		}
		end := ""
		if o.Kind == Txn {
			end = [...]string{"", " Commit", " Abort", " Updates->nil", " Updates->error", " Updates->panic"}[o.End]
			if o.End == EndDefault {
				end = " abort"
				if o.Commit {
					end = " commit"
				}
			}
		}
		return fmt.Sprintf("%s{%s}%s", o.Kind, strings.Join(parts, ";"), end)
	case IterAll, Len:
		return o.Kind
	case Allow:
		return fmt.Sprintf("Allow(DELETE %s%s)", Keys[o.Key].Host, Keys[o.Key].Path)
	case AllowOptions:
		return fmt.Sprintf("Allow(OPTIONS %s%s)", Keys[o.Key].Host, Keys[o.Key].Path)
	}
	return fmt.Sprintf("%s(%s %s)", o.Kind, Keys[o.Key].Method, Keys[o.Key].Pattern)
}

// Out is the observed result of an operation.
type Out struct {
	Err  string  `json:"err,omitempty"`
	Ver  int     `json:"ver"`
	Snap [NK]int `json:"snap"`
	Sub  []Out   `json:"sub,omitempty"`
	N    int     `json:"n"`
}

func (o Out) String() string {
	s := ""
	if o.Err != "" {
		s += "err=" + o.Err + " "
	}
	s += "v=" + strconv.Itoa(o.Ver)
	if o.Snap != [NK]int{} || o.N != 0 {
		s += fmt.Sprintf(" snap=%v n=%d", o.Snap, o.N)
	}
	if len(o.Sub) > 0 {
		s += fmt.Sprintf(" sub=%v", o.Sub)
	}
	return s
}

func errClass(err error) string {
	switch {
	case err == nil:
		return ""
	case errors.Is(err, fox.ErrRouteExist):
		return "exist"
	case errors.Is(err, fox.ErrRouteNotFound):
		return "notfound"
	case errors.Is(err, fox.ErrRouteConflict):
		return "conflict"
	case errors.Is(err, fox.ErrInvalidRoute):
		return "invalid"
	case errors.Is(err, fox.ErrReadOnlyTxn):
		return "readonly"
	}
	return "other:" + err.Error()
}

// reader abstracts the read API common to *fox.Router and *fox.Txn.
type reader interface {
	Has(method, pattern string) bool
	Route(method, pattern string) *fox.Route
	Reverse(method, host, path string) (*fox.Route, bool)
	Lookup(w fox.ResponseWriter, r *http.Request) (*fox.Route, fox.ContextCloser, bool)
	Iter() fox.Iter
	Len() int
}

// writer abstracts the write API common to *fox.Router and *fox.Txn.
type writer interface {
	Handle(method, pattern string, h fox.HandlerFunc, opts ...fox.RouteOption) (*fox.Route, error)
	Update(method, pattern string, h fox.HandlerFunc, opts ...fox.RouteOption) (*fox.Route, error)
	Delete(method, pattern string) (*fox.Route, error)
	HandleRoute(method string, route *fox.Route) error
	UpdateRoute(method string, route *fox.Route) error
}

// Snapshot reads all keys through an Iter.
func Snapshot(it fox.Iter) (snap [NK]int, n int) {
	for m, r := range it.All() {
		n++
		found := false
		for i, k := range Keys {
			if k.Method == m && k.Pattern == r.Pattern() {
				snap[i] = fx.RouteVer(r)
				found = true
			}
		}
		if !found {
			snap[0] = -999 // a route outside the key table: impossible
		}
	}
	return
}

func doRead(rd reader, f *fox.Router, o Op) Out {
	k := Keys[o.Key%NK]
	switch o.Kind {
	case Has:
		if rd.Has(k.Method, k.Pattern) {
			return Out{Ver: 1}
		}
		return Out{}
	case Route:
		return Out{Ver: fx.RouteVer(rd.Route(k.Method, k.Pattern))}
	case Reverse:
		r, tsr := rd.Reverse(k.Method, k.Host, k.Path)
		if tsr {
			return Out{Err: "tsr"}
		}
		return Out{Ver: fx.RouteVer(r)}
	case Lookup:
		w := fx.NewRW()
		req := fx.Req(k.Method, k.Host, k.Path)
		rw := fx.WrapRW(w)
		r, cc, tsr := rd.Lookup(rw, req)
		out := Out{Ver: fx.RouteVer(r)}
		if tsr {
			out.Err = "tsr"
		}
		if cc != nil {
			if r != nil && cc.Route() != r {
				out.Err = "ctx-route-mismatch"
			}
			cc.Close()
		}
		return out
	case IterAll:
		s, n := Snapshot(rd.Iter())
		return Out{Snap: s, N: n}
	case Len:
		return Out{N: rd.Len()}
	}
	panic("bad read op " + o.Kind)
}

func doWrite(wr writer, f *fox.Router, o Op) Out {
	k := Keys[o.Key]
	if o.Via && o.Kind != Delete {
		rt, err := f.NewRoute(k.Pattern, fx.VerHandler(o.Ver), fx.WithVer(o.Ver))
		if err != nil {
			return Out{Err: errClass(err)}
		}
		if o.Kind == Handle {
			return Out{Err: errClass(wr.HandleRoute(k.Method, rt))}
		}
		return Out{Err: errClass(wr.UpdateRoute(k.Method, rt))}
	}
	switch o.Kind {
	case Handle:
		_, err := wr.Handle(k.Method, k.Pattern, fx.VerHandler(o.Ver), fx.WithVer(o.Ver))
		return Out{Err: errClass(err)}
	case Update:
		_, err := wr.Update(k.Method, k.Pattern, fx.VerHandler(o.Ver), fx.WithVer(o.Ver))
		return Out{Err: errClass(err)}
	case Delete:
		r, err := wr.Delete(k.Method, k.Pattern)
		return Out{Err: errClass(err), Ver: fx.RouteVer(r)}
	}
	panic("bad write op " + o.Kind)
}

// ServeKey routes a request for key k through ServeHTTP and returns the version served (0 = 404).
func ServeKey(f *fox.Router, ki int) Out {
	k := Keys[ki]
	w := fx.NewRW()
	f.ServeHTTP(w, fx.Req(k.Method, k.Host, k.Path))
	if w.Code == 200 {
		v, _ := strconv.Atoi(w.H.Get("V"))
		return Out{Ver: v}
	}
	if w.Code == 404 || w.Code == 405 {
		return Out{} // not served (405 when the program enables method-not-allowed)
	}
	return Out{Err: "status" + strconv.Itoa(w.Code)}
}

// Do executes one operation against the router.
func Do(f *fox.Router, o Op) Out {
	switch o.Kind {
	case Handle, Update, Delete:
		return doWrite(f, f, o)
	case Serve:
		return ServeKey(f, o.Key)
	case Allow:
		k := Keys[o.Key]
		w := fx.NewRW()
		f.ServeHTTP(w, fx.Req("DELETE", k.Host, k.Path))
		var al []string
		for _, m := range strings.Split(w.H.Get("Allow"), ", ") {
			if m != "OPTIONS" { // whether OPTIONS is listed in a 405 Allow header is not decided by the statements
				al = append(al, m)
			}
		}
		sort.Strings(al)
		return Out{Err: fmt.Sprintf("%d:%s", w.Code, strings.Join(al, "+"))}
	case AllowOptions:
		k := Keys[o.Key]
		w := fx.NewRW()
		f.ServeHTTP(w, fx.Req("OPTIONS", k.Host, k.Path))
		al := strings.Split(w.H.Get("Allow"), ", ")
		sort.Strings(al)
		return Out{Err: fmt.Sprintf("%d:%s", w.Code, strings.Join(al, "+"))}
	case Has, Route, Reverse, Lookup, IterAll, Len:
		return doRead(f, f, o)
	case View:
		var out Out
		_ = f.View(func(txn *fox.Txn) error {
			for _, s := range o.Sub {
				out.Sub = append(out.Sub, doRead(txn, f, s))
				if o.StepIn {
					vs.Step("view")
				}
			}
			return nil
		})
		return out
	case Txn:
		var out Out
		body := func(txn *fox.Txn) {
			for _, s := range o.Sub {
				if o.StepIn {
					vs.Step("txn")
				}
				switch s.Kind {
				case Handle, Update, Delete:
					out.Sub = append(out.Sub, doWrite(txn, f, s))
				default:
					out.Sub = append(out.Sub, doRead(txn, f, s))
				}
			}
			if o.StepIn {
				vs.Step("txn-end")
			}
		}
		switch o.End {
		case EndUpdatesNil, EndUpdatesErr, EndUpdatesPanic:
			func() {
				defer func() {
					if p := recover(); p != nil {
						if _, ok := p.(injectedPanic); !ok {
							panic(p)
						}
					}
				}()
				err := f.Updates(func(txn *fox.Txn) error {
					body(txn)
					switch o.End {
					case EndUpdatesErr:
						return errors.New("injected")
					case EndUpdatesPanic:
						panic(injectedPanic{})
					}
					return nil
				})
				if (err != nil) != (o.End == EndUpdatesErr) {
					out.Err = "updates-returned-" + fmt.Sprint(err)
				}
			}()
		default:
			txn := f.Txn(true)
			func() {
				defer txn.Abort()
				body(txn)
				if o.commits() {
					txn.Commit()
				}
			}()
		}
		return out
	}
	panic("bad op " + o.Kind)
}

// ---------------------------------------------------------------------------------------------
// sequential model
// ---------------------------------------------------------------------------------------------

// State is the model: version per key, 0 = absent.
type State [NK]int

func count(s State) int {
	n := 0
	for _, v := range s {
		if v != 0 {
			n++
		}
	}
	return n
}

// Apply runs op on the model and returns the expected output and the next state.
func Apply(s State, o Op) (Out, State) {
	switch o.Kind {
	case Handle:
		if s[o.Key] != 0 {
			return Out{Err: "exist"}, s
		}
		s[o.Key] = o.Ver
		return Out{}, s
	case Update:
		if s[o.Key] == 0 {
			return Out{Err: "notfound"}, s
		}
		s[o.Key] = o.Ver
		return Out{}, s
	case Delete:
		if s[o.Key] == 0 {
			return Out{Err: "notfound"}, s
		}
		v := s[o.Key]
		s[o.Key] = 0
		return Out{Ver: v}, s
	case Has:
		if s[o.Key] != 0 {
			return Out{Ver: 1}, s
		}
		return Out{}, s
	case Route, Reverse, Lookup, Serve:
		return Out{Ver: s[o.Key]}, s
	case Allow, AllowOptions:
		var ms []string
		for i, k := range Keys {
			if s[i] != 0 && k.Host == Keys[o.Key].Host && k.Path == Keys[o.Key].Path && !strings.ContainsAny(k.Pattern, "{*") {
				ms = append(ms, k.Method)
			}
		}
		if len(ms) == 0 {
			return Out{Err: "404:"}, s
		}
		if o.Kind == AllowOptions {
			ms = append(ms, "OPTIONS")
			sort.Strings(ms)
			return Out{Err: "200:" + strings.Join(ms, "+")}, s
		}
		sort.Strings(ms)
		return Out{Err: "405:" + strings.Join(ms, "+")}, s
	case IterAll:
		return Out{Snap: s, N: count(s)}, s
	case Len:
		return Out{N: count(s)}, s
	case View:
		var out Out
		for _, sub := range o.Sub {
			so, _ := Apply(s, sub)
			out.Sub = append(out.Sub, so)
		}
		return out, s
	case Txn:
		var out Out
		t := s
		for _, sub := range o.Sub {
			var so Out
			so, t = Apply(t, sub)
			out.Sub = append(out.Sub, so)
		}
		if o.commits() {
			return out, t
		}
		return out, s
	}
	panic("bad op")
}

func outEq(a, b Out) bool {
	if a.Err != b.Err || a.Ver != b.Ver || a.Snap != b.Snap || a.N != b.N || len(a.Sub) != len(b.Sub) {
		return false
	}
	for i := range a.Sub {
		if !outEq(a.Sub[i], b.Sub[i]) {
			return false
		}
	}
	return true
}

// Event is one completed operation of a history.
type Event struct {
	Thread    int
	Op        Op
	Out       Out
	Call, Ret int64
}

func (e Event) String() string {
	return fmt.Sprintf("T%d [%d,%d] %s -> %s", e.Thread, e.Call, e.Ret, e.Op, e.Out)
}

// Linearizable checks the history against the model starting from init.
func Linearizable(init State, hist []Event) bool {
	model := porcupine.Model{
		Init: func() interface{} { return init },
		Step: func(st, in, out interface{}) (bool, interface{}) {
			exp, next := Apply(st.(State), in.(Op))
			return outEq(exp, out.(Out)), next
		},
		Equal: func(a, b interface{}) bool { return a.(State) == b.(State) },
	}
	ops := make([]porcupine.Operation, len(hist))
	for i, e := range hist {
		ops[i] = porcupine.Operation{ClientId: e.Thread, Input: e.Op, Call: e.Call, Output: e.Out, Return: e.Ret}
	}
	return porcupine.CheckOperations(model, ops)
}

// RenderHistory prints a history sorted by call time.
func RenderHistory(hist []Event) string {
	h := append([]Event(nil), hist...)
	sort.Slice(h, func(i, j int) bool { return h[i].Call < h[j].Call })
	var sb strings.Builder
	for _, e := range h {
		sb.WriteString("    " + e.String() + "\n")
	}
	return sb.String()
}

// Populate registers the keys of init on a fresh router.
func Populate(f *fox.Router, init State) {
	for i, v := range init {
		if v != 0 {
			k := Keys[i]
			if _, err := f.Handle(k.Method, k.Pattern, fx.VerHandler(v), fx.WithVer(v)); err != nil {
				panic(err)
			}
		}
	}
}

// AllowPrograms: requests whose answer is assembled from several lookups (405 / OPTIONS Allow list)
// against a transaction that moves a route from one method to another. The answer must come from
// ONE committed state.
func AllowPrograms() []*Program {
	h := func(k, v int) Op { return Op{Kind: Handle, Key: k, Ver: v} }
	d := func(k int) Op { return Op{Kind: Delete, Key: k} }
	opts := func() []fox.GlobalOption {
		return []fox.GlobalOption{fox.WithNoMethod(true), fox.WithAutoOptions(true)}
	}
	var out []*Program
	for wi, w := range []Op{
		{Kind: Txn, End: EndCommit, StepIn: true, Sub: []Op{d(0), h(4, 7)}},
		{Kind: Txn, End: EndUpdatesNil, StepIn: true, Sub: []Op{h(5, 7), d(0)}},
		{Kind: Txn, End: EndAbort, StepIn: true, Sub: []Op{d(0), h(4, 7)}},
		{Kind: Txn, End: EndUpdatesErr, StepIn: true, Sub: []Op{d(0), h(4, 7)}},
	} {
		out = append(out, &Program{Name: fmt.Sprintf("allow-%d", wi), Init: State{1, 0, 0, 0, 0, 0}, Opts: opts,
			Threads: [][]Op{{w}, {{Kind: Allow, Key: 0}, {Kind: AllowOptions, Key: 0}}, {{Kind: AllowOptions, Key: 0}, {Kind: Allow, Key: 0}}}})
	}
	return out
}
