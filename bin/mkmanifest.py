#!/usr/bin/env python3
"""Regenerates /verif/MANIFEST.json from the claims table below (single source of truth)."""
import json, os, subprocess

V = '/verif'
props = [json.loads(l) for l in open(V + '/properties.jsonl')]

SCHED = "Scheduling points at synchronisation operations (every mutex, atomic pointer and pool operation of fox, via an import-substituted shim) and between harness operations; data-race freedom is the side condition that makes this granularity complete and is checked by a separate free-running -race pass (sampling, not part of the deciding step)."

claims = {
 "C01": dict(level="exploration", design="4/C01",
   text="Bounded-exhaustive enumeration of route sets (all subsets up to size K of generated pattern pools, incl. hostname and >50-children fan-out pools) x all requests of a small alphabet on the real router; every entry point (Reverse, Lookup, ServeHTTP, Iter.Reverse, on router, read-only txn and uncommitted write txn) compared with an independent token-trie reference matcher plus a substitution round trip.",
   note="Reference matcher written from the README priority rules is trusted; prefixed catch-all capturing a value starting with '/' and hostname-tree trailing-slash interplay are abstained (counted). Bounds: K<=3 quick / <=4 thorough, paths <=3-4 segments over 4 letters.",
   technique="bounded exhaustive enumeration of (route set, request) pairs against a reference model (differential)"),
 "C02": dict(level="model_checking", design="4/C02",
   text="Explicit-state BFS over the registration API of the real router (Handle/HandleRoute/Update/UpdateRoute/Delete/Truncate, direct / committed txn / aborted txn, malformed inputs) from the empty router; states deduplicated on (map model, canonical tree dump); every transition checked against a sequential map model on results, error classes, conflict sets and every read API (router, read-only txn, inside the write txn).",
   note="State merging assumes no hidden mutable state beyond the dumped tree; conflict rule of the model stated in evidence. Bounds: two pools (shared prefixes/hostnames: 10 patterns x 2-3 methods, <=2-3 live routes expanded; siblings: 7 patterns, <=5-6 live routes).",
   technique="explicit-state breadth-first search over the implementation's transition function with a reference-model oracle on every transition"),
 "C03": dict(level="model_checking", design="4/C03",
   text="Sequential: every operation sequence up to a length from every seed state, in four modes (direct, inside one committed/aborted write transaction, issued from inside a request handler); all four kinds of snapshot (Router.Iter, read-only Txn, Txn.Snapshot, Txn.Iter, the request being served) are taken and re-read after every later operation and ending, and the final state is compared with the snapshot-free twin. Eviction: transactions touching 5000 inner nodes (copy cache 4096). Concurrent: all interleavings up to a preemption bound of a reader re-reading a snapshot against committing writers.",
   note=SCHED + " Observation equality is byte equality of a rendering of every read API. Bounds: sequences <=2 (quick) / 3 (thorough) over 19 operations, 2 pattern pools, seeds <=3 routes; preemption bound 2/3.",
   technique="explicit enumeration of histories with snapshots at every position on the implementation + preemption-bounded schedule exploration; oracle = observation equality"),
 "C04": dict(level="model_checking", design="4/C04",
   text="Sequential fault enumeration: every transaction body up to a length over a 21-operation alphabet (incl. Snapshot/Iter) from every seed state, ended in 7 ways (commit, abort, commit-then-abort, abort-then-commit, Updates returning nil / an error / panicking); router and transaction observed after every step (isolation, read-your-writes), all-or-nothing after the ending, lock released, settled transaction refuses use, read-only transaction refuses writes. Concurrent: all interleavings up to a preemption bound of a 3-operation transaction (5 endings) against two reader threads with a linearizability oracle in which a transaction is one atomic operation.",
   note=SCHED + " Every prefix of a body is itself an enumerated body, so an ending after every prefix is covered. The per-step observation of the open transaction avoids Txn.Iter/Snapshot (they reset the writable-node cache and would perturb the transaction under test); those are body operations instead. Bounds: bodies <=2 (quick) / 3 (thorough), 28 seeds, preemption bound 2/3.",
   technique="fault enumeration over transaction bodies x endings on the implementation with a map-model oracle + preemption-bounded schedule exploration with a linearizability oracle"),
 "C05": dict(level="model_checking", design="4/C05",
   text="Every interleaving, up to a stated preemption bound, of closed 2-3-thread programs (hand-written and generated from operation alphabets) on the real router under a controlled scheduler that owns every mutex/atomic/pool operation; each execution's history plus final reads is checked for linearizability against a sequential map model (porcupine), plus no panic and no deadlock.",
   note=SCHED + " Bounds: <=3 threads, <=4 operations per thread, preemption bound 2/1 (quick) and 3/2 (thorough).",
   technique="stateless model checking of the implementation: preemption-bounded DFS over thread interleavings under a controlled scheduler, linearizability oracle"),
 "C06": dict(level="model_checking", design="4/C06",
   text="Full product {34 read entry points, incl. every ServeHTTP branch and handles that became stale after a commit} x {5 stages at which a write transaction is parked and held open} x {4 option profiles}, each run under the controlled scheduler with the writer lock logically held for the whole execution: the reader must run to completion (a Lock that can never be granted is reported as a deadlock with the blocking operation) and its event log must contain no mutex operation at all; plus converse scenarios (readers parked inside a handler / View / iteration / holding a Lookup context versus writers; two writers) over all interleavings.",
   note="Blocking is decided by the scheduler, never by a timeout. The statement's static reading (every call path statically reachable from the read entry points) is a call-graph argument outside this technique; the dynamic product covers every exported read entry point.",
   technique="exhaustive product of read entry points x parked-writer states under a controlled scheduler with a lock-event monitor; unbounded interleaving exploration for the converse scenarios"),
 "C07": dict(level="model_checking", design="4/C07",
   text="Explicit-state BFS over registration histories; every reachable implementation state (registered set, tree dump) is compared with a fresh router filled in sorted order on probes derived from all pool patterns under 3 option profiles; all insertion permutations of small sets are compared likewise.",
   note="One representative history per (set, tree dump) by the C02 merging argument; Allow compared as a set. Bounds as C02; permutations of sets <=3-5.",
   technique="explicit-state BFS over histories + pairwise differential comparison of all implementation states reaching the same registered set"),
 "C08": dict(level="exploration", design="4/C08",
   text="Bounded-exhaustive enumeration of (pattern, slash option) sets registered under GET/POST/CONNECT x all request paths (incl. unclean ones) x methods, compared with a reference trailing-slash rule; plus an encoded-path axis where the redirect Location is resolved per RFC 3986 against the request URL.",
   note="Reference tsr rule and reference CleanPath trusted; prefixed catch-all gray zone abstained; one known finding (C08-pcs) is reported as KNOWN-FINDING. Bounds: K<=2-3 (quick) / 3-4 (thorough), paths <=3 segments.",
   technique="bounded exhaustive enumeration of (route set, request) pairs against a reference model; RFC 3986 resolution oracle for Location"),
 "C09": dict(level="exploration", design="4/C09",
   text="Bounded-exhaustive enumeration of sets mixing hostname and path-only patterns x every Host string up to length 5-6 over {a,b,.} plus structured variants (ports, trailing dots, IP literals, garbage) x paths; obligations: whole-host equality of any selected hostname route, host parameter round trip, exact path-only answer when no hostname route can be involved, reference direct match under a matching host.",
   note="Host normalisation reference = net.SplitHostPort + one trailing dot; direct matching itself is validated by C01. Bounds: K<=2 quick / 3 thorough.",
   technique="bounded exhaustive enumeration of (route set, Host, path) triples with differential and reference oracles"),
 "C11": dict(level="exploration", design="4/C11",
   text="Bounded-exhaustive enumeration of multi-method route sets x 4 (405, auto-OPTIONS) profiles x all requests (6 methods, 2 hosts, depth<=2 paths and '*'), issued in sequence (forward and reverse) on one router with a deterministic context pool; status, special handler identity, Allow set and the special handler's context (no route/pattern/params, scope) compared with the reference.",
   note="serves(method) from the reference matcher; OPTIONS membership in the 405 Allow header accepted either way; served requests are C08's. Bounds: K<=2 quick / 3 thorough over 84 specs.",
   technique="bounded exhaustive enumeration of (route set, option profile, request sequence) against a reference model"),
}

pending = "check not built yet in this round (planned: bounded exhaustive exploration, see DESIGN.md section 4)"

checks = []
for pid, c in claims.items():
    checks.append({
        "property_id": pid,
        "quick_cmd": f"bin/check {pid} quick",
        "thorough_cmd": f"bin/check {pid} thorough",
        "evidence_file": f"/verif/evidence/{pid}.json",
        "replay_cmd_template": f"bin/check {pid} quick --replay {{path}}",
        "engine": "foxcheck",
        "level_claimed": {"category": c["level"], "text": c["text"], "design_ref": c["design"]},
        "level_note": c["note"],
        "technique": c["technique"],
    })
na = [{"property_id": p["id"], "reason": pending} for p in props if p["id"] not in claims]

commits = subprocess.run(["git", "-C", "/repo", "log", "--format=%h %s"], capture_output=True, text=True).stdout.splitlines()
hook_commits = [l.split()[0] for l in commits if l.split(' ', 1)[1].startswith("verif hooks")]

m = {
 "version": 1,
 "setup_cmd": "bin/setup",
 "hooks": {
   "guard": "verif",
   "enable": "go build -tags verif -overlay <overlay.json generated by harness/cmd/overlaygen> (bin/check regenerates the overlay from /repo's working tree on every run; the overlay only substitutes the sync and sync/atomic imports of fox by the shim engine/vsync)",
   "baseline_off_cmd": "cd /repo && GOFLAGS=-mod=mod GOPROXY=off go test -json -vet=off -count=1 -timeout 25m ./...",
   "source_commits": hook_commits,
   "add_only": True,
 },
 "engines": [
   {"name": "vsync", "path": "engine/vsync", "serves_properties": ["C03", "C04", "C05", "C06", "C12", "C13"], "kind_free_text": "drop-in sync/atomic shim + controlled cooperative scheduler; the stateless preemption-bounded DFS explorer is harness/mc/sched.go"},
   {"name": "mc", "path": "harness/mc", "serves_properties": [p["id"] for p in props], "kind_free_text": "sharded bounded-exhaustive enumeration, known-findings classification, replay artefacts, evidence"},
   {"name": "hist", "path": "harness/hist", "serves_properties": ["C02", "C03", "C04", "C07"], "kind_free_text": "explicit-state BFS over the registration API of the real router with a map model"},
   {"name": "rsx", "path": "harness/rsx", "serves_properties": ["C01", "C08", "C09", "C11", "C16"], "kind_free_text": "route-set explorer: generated pattern pools x request alphabets against the reference matcher in harness/ref"},
 ],
 "checks": checks,
 "not_applicable": na,
 "notes": "All checks drive the real fox code; reference models are oracles only. known_findings.json lists fixed defects (fix: commits in /repo) and known findings.",
}
json.dump(m, open(V + '/MANIFEST.json', 'w'), indent=1)
print("MANIFEST.json:", len(checks), "checks,", len(na), "not claimed")
