#!/usr/bin/env python3
"""Regenerates /verif/MANIFEST.json from the claims table below (single source of truth)."""
import json, os, subprocess

V = '/verif'
props = [json.loads(l) for l in open(V + '/properties.jsonl')]

SCHED = "Scheduling points at synchronisation operations (every mutex, atomic pointer and pool operation of fox, via an import-substituted shim) and between harness operations; data-race freedom is the side condition that makes this granularity complete and is checked by a separate free-running -race pass (sampling, not part of the deciding step)."

claims = {
 "C01": dict(level="exploration", design="4/C01",
   text="Bounded-exhaustive enumeration of route sets (all subsets up to size K of generated pattern pools, incl. hostname and >50-children fan-out pools) x all requests of a small alphabet on the real router; every entry point (Reverse, Lookup, ServeHTTP, Iter.Reverse, on router, read-only txn and uncommitted write txn) compared with an independent token-trie reference matcher plus a substitution round trip.",
   note="Reference matcher written from the README priority rules is trusted; prefixed catch-all capturing a value starting with '/' and hostname-tree trailing-slash interplay are abstained (counted). Bounds: K<=3 quick / <=4 thorough, paths <=3-4 segments over 4 letters.",
   technique="bounded exhaustive enumeration of (route set, request) pairs against a reference model (differential)"),
 "C02": dict(level="model_checking", design="4/C02",
   text="Explicit-state BFS over the registration API of the real router (Handle/HandleRoute/Update/UpdateRoute/Delete/Truncate, direct / committed txn / aborted txn, malformed inputs) from the empty router; states deduplicated on (map model, canonical tree dump); every transition checked against a sequential map model on results, error classes, conflict sets and every read API (router, read-only txn, inside the write txn).",
   note="State merging assumes no hidden mutable state beyond the dumped tree; conflict rule of the model stated in evidence. The state key also records whether the last operation was a committed managed transaction (a twin per state), so that state kept outside the tree across transactions is exercised. Bounds: six pools (shared prefixes/hostnames: 10 patterns x 2-3 methods, <=2-3 live routes expanded; siblings: 7 patterns, <=5-6 live routes; methods, nested, hosts, infix2).",
   technique="explicit-state breadth-first search over the implementation's transition function with a reference-model oracle on every transition"),
 "C03": dict(level="model_checking", design="4/C03",
   text="Sequential: every operation sequence up to a length from every seed state, in five modes (direct, one committed managed transaction per operation, inside one committed/aborted write transaction, issued from inside a request handler); all four kinds of snapshot (Router.Iter, read-only Txn, Txn.Snapshot, Txn.Iter, the request being served) are taken and re-read after every later operation and ending, and the final state is compared with the snapshot-free twin. Eviction: transactions touching 5000 inner nodes (copy cache 4096). Concurrent: all interleavings up to a preemption bound of a reader re-reading a snapshot against committing writers.",
   note=SCHED + " Observation equality is byte equality of a rendering of every read API. Bounds: sequences <=2 (quick) / 3 (thorough) over 19 operations, 4 pattern pools, seeds <=3 routes; preemption bound 2/3.",
   technique="explicit enumeration of histories with snapshots at every position on the implementation + preemption-bounded schedule exploration; oracle = observation equality"),
 "C04": dict(level="model_checking", design="4/C04",
   text="Sequential fault enumeration: every transaction body up to a length over a 21-operation alphabet (incl. Snapshot/Iter) from every seed state, ended in 7 ways (commit, abort, commit-then-abort, abort-then-commit, Updates returning nil / an error / panicking); router and transaction observed after every step (isolation, read-your-writes), all-or-nothing after the ending, lock released, settled transaction refuses use, read-only transaction refuses writes. Concurrent: all interleavings up to a preemption bound of a 3-operation transaction (5 endings) against two reader threads with a linearizability oracle in which a transaction is one atomic operation.",
   note=SCHED + " Every prefix of a body is itself an enumerated body, so an ending after every prefix is covered. The per-step observation of the open transaction avoids Txn.Iter/Snapshot (they reset the writable-node cache and would perturb the transaction under test); those are body operations instead. Bounds: bodies <=2 (quick) / 3 (thorough), 28 seeds, preemption bound 2/3.",
   technique="fault enumeration over transaction bodies x endings on the implementation with a map-model oracle + preemption-bounded schedule exploration with a linearizability oracle"),
 "C05": dict(level="model_checking", design="4/C05",
   text="Every interleaving, up to a stated preemption bound, of closed 2-3-thread programs (hand-written and generated from operation alphabets) on the real router under a controlled scheduler that owns every mutex/atomic/pool operation; each execution's history plus final reads is checked for linearizability against a sequential map model (porcupine), plus no panic and no deadlock.",
   note=SCHED + " Bounds: <=3 threads, <=4 operations per thread, preemption bound 2/1 (quick) and 3/2 (thorough).",
   technique="stateless model checking of the implementation: preemption-bounded DFS over thread interleavings under a controlled scheduler, linearizability oracle"),
 "C06": dict(level="model_checking", design="4/C06",
   text="Full product {34 read entry points, incl. every ServeHTTP branch and handles that became stale after a commit} x {5 stages at which a write transaction is parked and held open} x {4 option profiles}, each run under the controlled scheduler with the writer lock logically held for the whole execution: the reader must run to completion (a Lock that can never be granted is reported as a deadlock with the blocking operation) and its event log must contain no mutex operation at all; plus converse scenarios (readers parked inside a handler / View / iteration / holding a Lookup context versus writers; two writers) over all interleavings.",
   note="Blocking is decided by the scheduler, never by a timeout; a thread that keeps re-reading unchanged atomic values is disabled until one of them is written, so a busy-wait on a read path is a deadlock report and not a non-terminating run. Commit-then-park and two-reader scenarios: preemption bound 2 (quick) / 6 (thorough). The statement's static reading (every call path statically reachable from the read entry points) is a call-graph argument outside this technique; the dynamic product covers every exported read entry point.",
   technique="exhaustive product of read entry points x parked-writer states under a controlled scheduler with a lock-event monitor; unbounded interleaving exploration for the converse scenarios"),
 "C07": dict(level="model_checking", design="4/C07",
   text="Explicit-state BFS over registration histories; every reachable implementation state (registered set, tree dump) is compared with a fresh router filled in sorted order on probes derived from all pool patterns under 3 option profiles; all insertion permutations of small sets are compared likewise.",
   note="One representative history per (set, tree dump) by the C02 merging argument; Allow compared as a set. Bounds as C02; permutations of sets <=3-5.",
   technique="explicit-state BFS over histories + pairwise differential comparison of all implementation states reaching the same registered set"),
 "C08": dict(level="exploration", design="4/C08",
   text="Bounded-exhaustive enumeration of (pattern, slash option) sets registered under GET/POST/CONNECT x all request paths (incl. unclean ones) x methods, compared with a reference trailing-slash rule; plus an encoded-path axis where the redirect Location is resolved per RFC 3986 against the request URL.",
   note="Reference tsr rule and reference CleanPath trusted; prefixed catch-all gray zone abstained; one known finding (C08-pcs) is reported as KNOWN-FINDING. Bounds: K<=2-3 (quick) / 3-4 (thorough), paths <=3 segments.",
   technique="bounded exhaustive enumeration of (route set, request) pairs against a reference model; RFC 3986 resolution oracle for Location"),
 "C09": dict(level="exploration", design="4/C09",
   text="Bounded-exhaustive enumeration of sets mixing hostname and path-only patterns x every Host string up to length 5-6 over {a,b,.} plus structured variants (ports, trailing dots, IP literals, garbage) x paths; obligations: whole-host equality of any selected hostname route, host parameter round trip, exact path-only answer when no hostname route can be involved, reference direct match under a matching host.",
   note="Host normalisation reference = net.SplitHostPort + one trailing dot; direct matching itself is validated by C01. Bounds: K<=2 quick / 3 thorough.",
   technique="bounded exhaustive enumeration of (route set, Host, path) triples with differential and reference oracles"),
 "C11": dict(level="exploration", design="4/C11",
   text="Bounded-exhaustive enumeration of multi-method route sets x 4 (405, auto-OPTIONS) profiles x all requests (6 methods, 2 hosts, depth<=2 paths and '*'), issued in sequence (forward and reverse) on one router with a deterministic context pool; status, special handler identity, Allow set and the special handler's context (no route/pattern/params, scope) compared with the reference.",
   note="serves(method) from the reference matcher; OPTIONS membership in the 405 Allow header accepted either way; served requests are C08's. Bounds: K<=2 quick / 3 thorough over 84 specs.",
   technique="bounded exhaustive enumeration of (route set, option profile, request sequence) against a reference model"),
 "C10": dict(level="exploration", design="4/C10",
   text="Complete enumeration of all strings up to length 7 (quick) / 8 (thorough) over the 8-letter pattern alphabet x 8 limit configurations through NewRoute, compared with a reference recogniser written from the README; accepted patterns are registered and deleted on an empty router and instantiated with every value combination (routable, values reproduce the request, values equal the substituted ones when no catch-all is followed by text); arbitrary bytes for crash-freedom.",
   note="Reference grammar trusted; gray zones abstained: '_' in host labels, '-' directly before a label parameter, host parameter names containing characters that host:port splitting treats specially.",
   technique="bounded exhaustive enumeration of input strings against a reference recogniser"),
 "C12": dict(level="model_checking", design="4/C12",
   text="Every sequence up to a length of requests from a 12-kind alphabet, on routers with and without a hostname route, with optional tree replacement between requests, x EVERY answer of the context pool at every Pool.Get (data choice points of the controlled scheduler: any pooled context or a fresh one); every Context getter is checked inside every handler against the request's unique token and stashed clones are re-read after every later request; plus two-thread schedules.",
   note=SCHED + " sync.Pool semantics (any previously Put object or a new one) is made explicit by the shim and enumerated. Bounds: sequences <=2 (all 21 kinds) + <=3 (11 kinds) quick, <=3 all kinds thorough; preemption bound 2/3.",
   technique="stateless exploration of environment (pool) choices and thread interleavings on the implementation with a per-request token oracle"),
 "C13": dict(level="model_checking", design="4/C13",
   text="Configurations: every list of global middleware up to a length over scope masks (with/without DefaultOptions) x route-specific lists x Update, observed on all five handler kinds, Route.Handle and Route.HandleMiddleware for two routes. Schedules: all interleavings (unbounded) of 2-3 threads creating routes with route-specific middleware, scheduling points at the tag-guarded verifPoints inside NewRoute.",
   note="NewRoute has no synchronisation operation; its interleavings are explored at the two hook points (before each option, before the chain is built). Finer-grained data races are left to the -race side pass.",
   technique="exhaustive configuration enumeration + unbounded schedule exploration at tagged hook points with an expected-trace oracle"),
 "C14": dict(level="model_checking", design="4/C14",
   text="Every call sequence up to length 4 (quick) / 5 (thorough) over a 15-call writer alphabet x 6 underlying writer variants x underlying writers failing after j accepted bytes; after every call Status/Size/Written are compared with the ledger of the recording underlying writer (first final status forwarded, bytes accepted, at most one final header, none after body bytes, bytes in order) and variants differing only in io.ReaderFrom are compared with each other; plus all 32 capability combinations, Context helpers, Redirect for every code 0..999.",
   note="The recording underlying writer follows net/http (1xx except 101 informational; first body byte implies 200; flush sends the header).",
   technique="exhaustive enumeration of call sequences x fault positions against a ledger model + differential between fast and slow path"),
 "C15": dict(level="fault_enumeration", design="4/C15",
   text="Complete product panic value (16) x response progress (5) x panic site (9) x spelling of each credential-bearing header (26) x state of the request context (3), plus Updates/View panicking after every prefix: nothing escapes ServeHTTP except ErrAbortHandler (same value), 500 iff nothing written and not a broken connection, started responses untouched, router usable afterwards (routes, requests, a write completes), diagnostic record names route/params/request line and contains no secret.",
   note="Wrapped broken-connection errors abstained for the 500 rule. Lock release decided by the shim.",
   technique="fault enumeration: exhaustive product of injected panics x progress x site x header spelling"),
 "C16": dict(level="exploration", design="4/C16",
   text="Every subset (size<=2 quick / 3 thorough) of (pattern, ignore-slash) pairs from 5 generated pools on the PRODUCTION build (no tag, no overlay); every request really served by a route handler is served in an interleaved cycle measured with testing.AllocsPerRun after warm-up; 0 allocations required; single requests re-measured to locate a culprit.",
   note="An allocation is what the Go runtime counts; non-zero readings are re-measured 5 times (minimum reported). GC off, GOMAXPROCS 1, allocation-free handler/writer/request.",
   technique="bounded exhaustive enumeration of (route set, request cycle) with a measuring oracle"),
 "C17": dict(level="exploration", design="4/C17",
   text="Complete enumeration of all strings up to length 10 (quick) / 12 (thorough) over {'/', '.', 'a', '%', 'e-acute'} plus core strings embedded in paddings crossing the 128-byte stack buffer, compared with a split-and-stack reference, idempotence, crash-freedom; plus every short path served by redirecting routers (a 301 implies a clean path).",
   note="Reference CleanPath written from the statement.",
   technique="bounded exhaustive enumeration of input strings against a reference implementation"),
 "C18": dict(level="exploration", design="4/C18",
   text="Every header list up to 3 (quick) / 4 (thorough) entries over a 16-token alphabet, as X-Forwarded-For and Forwarded (12 element shapes), over one or two lines, x 63 resolver configurations (counts and limits up to MaxUint), compared with reference strategies over net/netip; every selecting list re-run behind 17 attacker prefixes (same line and extra line); SingleIPHeader, RemoteAddr, Chain; default-range audit exhaustive by elementary intervals against the IANA special-purpose registries.",
   note="Built-in tables read through a tag-guarded hook for exact interval boundaries; anycast exceptions inside reserved blocks not counted against the tables.",
   technique="bounded exhaustive enumeration of header lists against reference strategies + exact interval analysis of CIDR tables"),
 "C19": dict(level="exploration", design="4/C19",
   text="Every sequence of <=2 global options x every sequence of <=2 (quick) / 3 (thorough) route options (repeated, contradictory, nil, 12 annotation key kinds) x {NewRoute, Handle, Update} compared with a left-fold model (accessors, annotations, errors, never a panic); Context.ClientIP read in all handler kinds over all request pairs and triples on one router with a deterministic context pool.",
   note="Annotation key validity = dynamic comparability.",
   technique="bounded exhaustive enumeration of option sequences against a fold model"),
 "C20": dict(level="exploration", design="4/C20",
   text="Complete product of resolver configuration x (previous request kind, request kind) x remote address, the route handler sweeping every status 100..999, implicit 200, nothing, redirects with/without Location and panic; each request served with and without the Logger (differential) and the single captured record compared with a record model (status, method/host/path, message per the three-way rule, level, location, emitted after the handler). Part concurrent: two requests inside one Logger instance under the controlled scheduler (scheduling points in the resolver, the slog handler and the route handler), every interleaving up to 2 preemptions (quick) / unbounded (thorough): every record describes one request only.",
   note="Level judged for 200..599 only; for an unparsable remote address only count/status/level are demanded.",
   technique="exhaustive product enumeration against a record model + differential with/without the middleware; stateless preemption-bounded schedule exploration for overlapping requests"),
}

pending = "check not built yet in this round (planned: bounded exhaustive exploration, see DESIGN.md section 4)"

checks = []
for pid, c in claims.items():
    checks.append({
        "property_id": pid,
        "quick_cmd": f"bin/check {pid} quick",
        "thorough_cmd": f"bin/check {pid} thorough",
        "evidence_file": f"/verif/evidence/{pid}.json",
        "replay_cmd_template": f"bin/check {pid} quick --replay {{path}}",
        "engine": "foxcheck",
        "level_claimed": {"category": c["level"], "text": c["text"], "design_ref": c["design"]},
        "level_note": c["note"],
        "technique": c["technique"],
    })
na = [{"property_id": p["id"], "reason": pending} for p in props if p["id"] not in claims]

commits = subprocess.run(["git", "-C", "/repo", "log", "--format=%h %s"], capture_output=True, text=True).stdout.splitlines()
hook_commits = [l.split()[0] for l in commits if l.split(' ', 1)[1].startswith("verif hooks")]

m = {
 "version": 1,
 "setup_cmd": "bin/setup",
 "hooks": {
   "guard": "verif",
   "enable": "go build -tags verif -overlay <overlay.json generated by harness/cmd/overlaygen> (bin/check regenerates the overlay from /repo's working tree on every run; the overlay only substitutes the sync and sync/atomic imports of fox by the shim engine/vsync)",
   "baseline_off_cmd": "cd /repo && GOFLAGS=-mod=mod GOPROXY=off go test -json -vet=off -count=1 -timeout 25m ./...",
   "source_commits": hook_commits,
   "add_only": True,
 },
 "engines": [
   {"name": "vsync", "path": "engine/vsync", "serves_properties": ["C03", "C04", "C05", "C06", "C12", "C13"], "kind_free_text": "drop-in sync/atomic shim + controlled cooperative scheduler; the stateless preemption-bounded DFS explorer is harness/mc/sched.go"},
   {"name": "mc", "path": "harness/mc", "serves_properties": [p["id"] for p in props], "kind_free_text": "sharded bounded-exhaustive enumeration, known-findings classification, replay artefacts, evidence"},
   {"name": "hist", "path": "harness/hist", "serves_properties": ["C02", "C03", "C04", "C07"], "kind_free_text": "explicit-state BFS over the registration API of the real router with a map model"},
   {"name": "rsx", "path": "harness/rsx", "serves_properties": ["C01", "C08", "C09", "C11", "C16"], "kind_free_text": "route-set explorer: generated pattern pools x request alphabets against the reference matcher in harness/ref"},
 ],
 "checks": checks,
 "not_applicable": na,
 "notes": "All checks drive the real fox code; reference models are oracles only. known_findings.json lists fixed defects (fix: commits in /repo) and known findings.",
}
json.dump(m, open(V + '/MANIFEST.json', 'w'), indent=1)
print("MANIFEST.json:", len(checks), "checks,", len(na), "not claimed")
