#!/bin/bash
# validates MANIFEST.json and every evidence file against the schemas
python3-vt - <<'PY'
import json,jsonschema,glob
m=json.load(open('/verif/MANIFEST.json'))
jsonschema.validate(m,json.load(open('/root/.vp/MANIFEST.schema.json')))
es=json.load(open('/root/.vp/EVIDENCE.schema.json'))
ok=True
for c in m['checks']:
    try:
        e=json.load(open(c['evidence_file'])); jsonschema.validate(e,es)
        assert e['level']==c['level_claimed']['category'], 'level mismatch'
        print(c['property_id'],'ok',e['tier'],'violations',e.get('violations'),'exhaustive',e['coverage'].get('exhaustive'))
    except Exception as ex:
        ok=False; print(c['property_id'],'INVALID',str(ex)[:200])
print('all valid' if ok else 'PROBLEMS')
PY
