// Package verifsync is a drop-in replacement for the parts of "sync" and "sync/atomic" that
// tigerwill90/fox uses, plus a controlled cooperative scheduler.
//
// It is mapped by `go build -overlay` into the fox module as the virtual package
// github.com/tigerwill90/fox/verifsync; overlay copies of the fox sources import it under the
// names "sync" and "atomic". With no scheduler installed every type delegates to the real
// primitive. With a scheduler installed (Install) every operation is a scheduling point of a
// deterministic, single-threaded-at-a-time execution whose choices are dictated by a choice
// sequence; the explorer (package mc of the harness) enumerates those sequences.
package verifsync

import (
	"fmt"
	"reflect"
	"runtime/debug"
	rsync "sync"
	ratomic "sync/atomic"
	"unsafe"
)

// ---------------------------------------------------------------------------------------------
// Scheduler
// ---------------------------------------------------------------------------------------------

// OpKind identifies the kind of a scheduling point.
type OpKind uint8

const (
	OpStart OpKind = iota
	OpLock
	OpUnlock
	OpRLock
	OpRUnlock
	OpLoad
	OpStore
	OpCAS
	OpSwap
	OpPoolGet
	OpPoolPut
	OpOnce
	OpStep
	OpPark
	OpHook
	OpWait
	OpAdd
	OpTryLock
	OpChanSend
	OpChanRecv
	nOpKinds
)

var opNames = [...]string{"start", "lock", "unlock", "rlock", "runlock", "load", "store", "cas", "swap", "poolget", "poolput", "once", "step", "park", "hook", "wait", "add", "trylock", "chansend", "chanrecv"}

func (k OpKind) String() string { return opNames[k] }

// Event is one executed scheduling point.
type Event struct {
	Thread int
	Kind   OpKind
	Obj    int    // shim object id (0 for harness points)
	Label  string // hook / step label
}

// Point describes one recorded choice point of an execution.
type Point struct {
	N              int  // number of alternatives
	Data           bool // data (environment) choice, not a thread choice
	RunningEnabled bool // thread choice: the running thread was itself enabled (switching away costs a preemption)
	Chosen         int
}

type thread struct {
	id        int
	resume    chan struct{}
	done      bool
	pending   OpKind
	pendObj   *objState
	parked    *Gate
	daemon    bool
	panicVal  any
	panicStk  string
	started   bool
	completed bool
	// busy-wait detection (see Sched.SpinLimit)
	spinSet  []spinEnt
	spinCnt  int
	spinning bool
	// pendReady: for a pending channel operation, whether it can proceed without blocking
	pendReady func() bool
}

type spinEnt struct {
	obj *objState
	ver int64
}

type objState struct {
	id      int
	held    bool // mutex
	readers int  // rwmutex
	owner   int
	ver     int64 // bumped by every store/cas/swap/add on the object
}

// Sched is one controlled execution environment. Exactly one may be installed at a time.
type Sched struct {
	// SpinWaits counts the times a thread was found busy-waiting (and disabled until a value it polls changed);
	// SpinInfo describes the first one
	SpinWaits int
	SpinInfo  string
	addrObjs  map[unsafe.Pointer]*objState // objects of scalar atomics, by address (this epoch)
	addrEpoch uint64
	threads   []*thread
	running   *thread
	choices   []int // prefix to replay
	pos       int
	Points    []Point
	Events    []Event
	LogEvent  bool
	Counts    [nOpKinds]int
	// PerThreadCounts[t][kind]
	PerThread  [][nOpKinds]int
	clock      int64
	aborted    bool
	Deadlock   bool
	DeadInfo   string
	Diverged   string
	finished   chan struct{}
	exploring  bool
	nextObj    int
	epoch      uint64
	PoolChoice bool // Pool.Get is a data choice point
	MaxPoints  int  // safety horizon; exceeded => Diverged
	// SpinLimit makes busy-waiting visible. A thread that executes nothing but atomic loads and has
	// re-read an (object, version) pair it already read in that run of loads more than SpinLimit
	// times cannot observe anything new until one of those objects is written: it is disabled until
	// then. If no thread is enabled the execution is a deadlock whose info names the busy-waiter.
	SpinLimit int
}

var (
	cur      *Sched // installed scheduler; accessed only by the (single) running goroutine or the driver
	curFlag  ratomic.Bool
	epochCtr uint64
)

// Active reports whether a scheduler is installed.
func Active() bool { return curFlag.Load() }

// NewSched creates a scheduler that replays prefix and then always takes alternative 0.
func NewSched(prefix []int) *Sched {
	epochCtr++
	return &Sched{choices: prefix, finished: make(chan struct{}, 1), epoch: epochCtr, MaxPoints: 1 << 20, SpinLimit: 16}
}

// Install makes s the current scheduler. Shim operations executed before Run (setup phase) act
// on the logical state directly without scheduling.
func (s *Sched) Install() {
	if cur != nil {
		panic("verifsync: scheduler already installed")
	}
	cur = s
	curFlag.Store(true)
}

// Uninstall removes the scheduler.
func (s *Sched) Uninstall() {
	if cur == s {
		cur = nil
		curFlag.Store(false)
	}
}

type abortSignal struct{}

// choose returns the next choice among n alternatives.
func (s *Sched) choose(n int, data, runningEnabled bool) int {
	c := 0
	if s.pos < len(s.choices) {
		c = s.choices[s.pos]
		if c >= n || c < 0 {
			if s.Diverged == "" {
				s.Diverged = fmt.Sprintf("replay divergence at choice %d: want alternative %d of %d", s.pos, c, n)
			}
			c = 0
		}
	}
	s.pos++
	s.Points = append(s.Points, Point{N: n, Data: data, RunningEnabled: runningEnabled, Chosen: c})
	return c
}

func (s *Sched) enabled(t *thread) bool {
	if t.done {
		return false
	}
	if !t.started {
		return true
	}
	if t.spinning {
		changed := false
		for _, e := range t.spinSet {
			if e.obj.ver != e.ver {
				changed = true
				break
			}
		}
		if !changed {
			return false
		}
		t.spinning, t.spinCnt, t.spinSet = false, 0, t.spinSet[:0]
	}
	switch t.pending {
	case OpLock:
		o := t.pendObj
		return !o.held && o.readers == 0
	case OpRLock:
		return !t.pendObj.held
	case OpPark:
		return t.parked.open
	case OpChanSend, OpChanRecv:
		return t.pendReady == nil || t.pendReady()
	}
	return true
}

// pickNext selects the thread to run next according to the choice sequence. me is the thread
// calling (may be done). Returns nil when no thread is enabled.
func (s *Sched) pickNext(me *thread) *thread {
	var en [16]*thread
	list := en[:0]
	runningEnabled := false
	if me != nil && s.enabled(me) {
		list = append(list, me)
		runningEnabled = true
	}
	for _, t := range s.threads {
		if t != me && s.enabled(t) {
			list = append(list, t)
		}
	}
	if len(list) == 0 {
		return nil
	}
	if len(list) == 1 {
		return list[0]
	}
	return list[s.choose(len(list), false, runningEnabled)]
}

// point is a scheduling point: the running thread announces its pending operation and yields.
func (s *Sched) point(kind OpKind, obj *objState, label string) {
	if !s.exploring || s.aborted {
		return
	}
	t := s.running
	t.pending = kind
	t.pendObj = obj
	if len(s.Points) > s.MaxPoints {
		if s.Diverged == "" {
			s.Diverged = "horizon exceeded"
		}
		s.abortFrom(t)
		panic(abortSignal{})
	}
	if kind == OpLoad && obj != nil && s.SpinLimit > 0 {
		seen := false
		for _, e := range t.spinSet {
			if e.obj == obj && e.ver == obj.ver {
				seen = true
				break
			}
		}
		if seen {
			if t.spinCnt++; t.spinCnt > s.SpinLimit {
				t.spinning = true
				s.SpinWaits++
				if s.SpinInfo == "" {
					s.SpinInfo = fmt.Sprintf("thread T%d re-read the same atomic values %d times in a row without any other operation in between: it busy-waits until another thread changes one of them", t.id, t.spinCnt)
				}
			}
		} else {
			if len(t.spinSet) >= 64 {
				t.spinSet = t.spinSet[:0]
			}
			t.spinSet = append(t.spinSet, spinEnt{obj, obj.ver})
			t.spinCnt = 0
		}
	} else if len(t.spinSet) > 0 {
		t.spinSet, t.spinCnt = t.spinSet[:0], 0
	}
	next := s.pickNext(t)
	if next == nil {
		// t itself is blocked and nobody else can run: deadlock (or only daemons left).
		s.noneEnabled(t)
		panic(abortSignal{})
	}
	if next != t {
		s.switchTo(next)
		<-t.resume
		if s.aborted {
			panic(abortSignal{})
		}
	}
	s.clock++
	if obj != nil && (kind == OpStore || kind == OpCAS || kind == OpSwap || kind == OpAdd) {
		obj.ver++
	}
	s.Counts[kind]++
	s.PerThread[t.id][kind]++
	if s.LogEvent {
		id := 0
		if obj != nil {
			id = obj.id
		}
		s.Events = append(s.Events, Event{Thread: t.id, Kind: kind, Obj: id, Label: label})
	}
}

func (s *Sched) switchTo(next *thread) {
	s.running = next
	next.started = true
	next.resume <- struct{}{}
}

// noneEnabled is called by the running goroutine when no thread can be scheduled.
func (s *Sched) noneEnabled(me *thread) {
	real := false
	info := ""
	for _, t := range s.threads {
		if !t.done && !t.daemon {
			real = true
		}
		if !t.done {
			if t.spinning {
				info += fmt.Sprintf("[T%d busy-waits: re-read the same atomic values %d times]", t.id, t.spinCnt)
			} else {
				info += fmt.Sprintf("[T%d blocked on %s]", t.id, t.pending)
			}
		}
	}
	if real {
		s.Deadlock = true
		s.DeadInfo = info
	}
	s.abortFrom(me)
}

// abortFrom terminates every other unfinished thread one at a time, then signals completion.
// The caller (me, may be nil or done) must itself unwind by panicking abortSignal if not done.
func (s *Sched) abortFrom(me *thread) {
	s.aborted = true
	for _, t := range s.threads {
		if t == me || t.done {
			continue
		}
		if !t.started {
			t.done = true
			t.started = true
			s.running = t
			t.resume <- struct{}{} // wrapper sees aborted and exits
			<-s.finished
			continue
		}
		s.running = t
		t.resume <- struct{}{}
		<-s.finished // thread wrapper signals after unwinding
	}
	if me == nil || me.done {
		s.finished <- struct{}{}
	}
	// if me is not done, its wrapper signals finished after unwinding
}

// Run executes the thread bodies under the scheduler until all are finished (or deadlock).
// Thread i is marked daemon if daemon[i] (it may stay parked forever without being a deadlock).
func (s *Sched) Run(bodies []func(), daemon []bool) {
	s.threads = make([]*thread, len(bodies))
	s.PerThread = make([][nOpKinds]int, len(bodies))
	for i := range bodies {
		s.threads[i] = &thread{id: i, resume: make(chan struct{}, 1)}
		if daemon != nil {
			s.threads[i].daemon = daemon[i]
		}
	}
	for i := range bodies {
		t := s.threads[i]
		body := bodies[i]
		go func() {
			<-t.resume
			if s.aborted {
				t.done = true
				s.finished <- struct{}{}
				return
			}
			defer func() {
				r := recover()
				wasAborted := false
				if r != nil {
					if _, ok := r.(abortSignal); ok {
						wasAborted = true
					} else if !s.aborted {
						t.panicVal = r
						t.panicStk = string(debug.Stack())
					}
				}
				t.done = true
				t.completed = !wasAborted && !s.aborted
				if s.aborted {
					s.finished <- struct{}{}
					return
				}
				next := s.pickNext(t)
				if next == nil {
					s.noneEnabled(t)
					return
				}
				s.switchTo(next)
			}()
			body()
		}()
	}
	s.exploring = true
	first := s.pickNext(nil)
	if first == nil {
		s.exploring = false
		return
	}
	s.switchTo(first)
	<-s.finished
	s.exploring = false
	s.running = nil
}

// PanicOf returns the recovered panic value (and stack) of thread i, nil if none.
func (s *Sched) PanicOf(i int) (any, string) { return s.threads[i].panicVal, s.threads[i].panicStk }

// Finished reports whether thread i ran its body to completion (normally or by its own panic),
// as opposed to being torn down while blocked.
func (s *Sched) Finished(i int) bool { return s.threads[i].completed }

// Choices returns the choice made at every recorded point.
func (s *Sched) Choices() []int {
	out := make([]int, len(s.Points))
	for i, p := range s.Points {
		out[i] = p.Chosen
	}
	return out
}

// --- harness-facing helpers (no-ops without a scheduler) ---

// Step is an explicit scheduling point between two harness-level operations.
func Step(label string) {
	if s := cur; s != nil {
		s.point(OpStep, nil, label)
	}
}

// HookPoint is a scheduling point raised from a verifPoint inside fox.
func HookPoint(label string) {
	if s := cur; s != nil {
		s.point(OpHook, nil, label)
	}
}

// Now returns a strictly increasing logical timestamp.
func Now() int64 {
	if s := cur; s != nil {
		s.clock++
		return s.clock
	}
	return 0
}

// ThreadID returns the id of the running thread (-1 outside Run).
func ThreadID() int {
	if s := cur; s != nil && s.running != nil {
		return s.running.id
	}
	return -1
}

// Choose is a data choice point among n alternatives (0 without scheduler or outside Run).
func Choose(n int) int {
	if s := cur; s != nil && s.exploring && !s.aborted && n > 1 {
		return s.choose(n, true, false)
	}
	return 0
}

// Gate blocks threads in Park until opened.
type Gate struct{ open bool }

// Park blocks the running thread until g is open.
func (g *Gate) Park() {
	if s := cur; s != nil && s.exploring {
		t := s.running
		t.parked = g
		s.point(OpPark, nil, "")
	}
}

// ---------------------------------------------------------------------------------------------
// Channel operations of the code under test (the overlay generator rewrites `ch <- v`, `<-ch` and
// `close(ch)` outside select statements into these calls). A send or receive on a buffered channel is
// a scheduling point at which the thread is enabled only if the operation can proceed; a thread
// that can never proceed shows up as blocked in the deadlock report. Unbuffered channels and select
// statements are not modelled: meeting one under exploration ends the run as a machinery error.
// ---------------------------------------------------------------------------------------------

func (s *Sched) chanPoint(kind OpKind, ready func() bool) {
	t := s.running
	t.pendReady = ready
	s.point(kind, nil, "chan")
	t.pendReady = nil
}

func (s *Sched) unbuffered() {
	if s.Diverged == "" {
		s.Diverged = "operation on an unbuffered channel under exploration: not modelled"
	}
}

var closedChans = map[uintptr]bool{}

// ChanSend replaces `ch <- v`.
func ChanSend[C interface{ ~chan T | ~chan<- T }, T any](ch C, v T) {
	if s := cur; s != nil && s.exploring && !s.aborted {
		if cap(ch) == 0 {
			s.unbuffered()
		} else {
			s.chanPoint(OpChanSend, func() bool { return len(ch) < cap(ch) })
		}
	}
	ch <- v
}

// ChanRecv replaces `<-ch`.
func ChanRecv[C interface{ ~chan T | ~<-chan T }, T any](ch C) T {
	v, _ := ChanRecv2[C, T](ch)
	return v
}

// ChanRecv2 replaces `v, ok := <-ch`.
func ChanRecv2[C interface{ ~chan T | ~<-chan T }, T any](ch C) (T, bool) {
	if s := cur; s != nil && s.exploring && !s.aborted {
		if cap(ch) == 0 {
			s.unbuffered()
		} else {
			p := reflect.ValueOf(ch).Pointer()
			s.chanPoint(OpChanRecv, func() bool { return len(ch) > 0 || closedChans[p] })
		}
	}
	v, ok := <-ch
	return v, ok
}

// ChanClose replaces `close(ch)`.
func ChanClose[C interface{ ~chan T | ~chan<- T }, T any](ch C) {
	if cur != nil {
		closedChans[reflect.ValueOf(ch).Pointer()] = true
	}
	close(ch)
}

// Open opens the gate (not itself a scheduling point).
func (g *Gate) Open() { g.open = true }

// ---------------------------------------------------------------------------------------------
// sync replacements
// ---------------------------------------------------------------------------------------------

func (s *Sched) newObj() *objState {
	s.nextObj++
	return &objState{id: s.nextObj}
}

// Locker mirrors sync.Locker.
type Locker = rsync.Locker

// Mutex replaces sync.Mutex.
type Mutex struct {
	real  rsync.Mutex
	st    *objState
	epoch uint64
}

func (m *Mutex) state(s *Sched) *objState {
	if m.st == nil || m.epoch != s.epoch {
		m.st = s.newObj()
		m.epoch = s.epoch
	}
	return m.st
}

func (m *Mutex) Lock() {
	s := cur
	if s == nil {
		m.real.Lock()
		return
	}
	o := m.state(s)
	s.point(OpLock, o, "")
	if s.aborted {
		return
	}
	if o.held {
		if !s.exploring {
			panic("verifsync: Lock of held mutex during setup (would deadlock)")
		}
		panic("verifsync: internal error: scheduled Lock on held mutex")
	}
	o.held = true
	if s.running != nil {
		o.owner = s.running.id
	}
}

func (m *Mutex) TryLock() bool {
	s := cur
	if s == nil {
		return m.real.TryLock()
	}
	o := m.state(s)
	s.point(OpTryLock, o, "trylock")
	if o.held {
		return false
	}
	o.held = true
	return true
}

func (m *Mutex) Unlock() {
	s := cur
	if s == nil {
		m.real.Unlock()
		return
	}
	o := m.state(s)
	s.point(OpUnlock, o, "")
	if s.aborted {
		return
	}
	if !o.held {
		panic("sync: unlock of unlocked mutex")
	}
	o.held = false
}

// RWMutex replaces sync.RWMutex.
type RWMutex struct {
	real  rsync.RWMutex
	st    *objState
	epoch uint64
}

func (m *RWMutex) state(s *Sched) *objState {
	if m.st == nil || m.epoch != s.epoch {
		m.st = s.newObj()
		m.epoch = s.epoch
	}
	return m.st
}

func (m *RWMutex) Lock() {
	s := cur
	if s == nil {
		m.real.Lock()
		return
	}
	o := m.state(s)
	s.point(OpLock, o, "")
	if s.aborted {
		return
	}
	if o.held || o.readers > 0 {
		panic("verifsync: Lock of held rwmutex")
	}
	o.held = true
}

func (m *RWMutex) Unlock() {
	s := cur
	if s == nil {
		m.real.Unlock()
		return
	}
	o := m.state(s)
	s.point(OpUnlock, o, "")
	if s.aborted {
		return
	}
	if !o.held {
		panic("sync: Unlock of unlocked RWMutex")
	}
	o.held = false
}

func (m *RWMutex) RLock() {
	s := cur
	if s == nil {
		m.real.RLock()
		return
	}
	o := m.state(s)
	s.point(OpRLock, o, "")
	if s.aborted {
		return
	}
	if o.held {
		panic("verifsync: RLock of write-held rwmutex")
	}
	o.readers++
}

func (m *RWMutex) RUnlock() {
	s := cur
	if s == nil {
		m.real.RUnlock()
		return
	}
	o := m.state(s)
	s.point(OpRUnlock, o, "")
	if s.aborted {
		return
	}
	if o.readers <= 0 {
		panic("sync: RUnlock of unlocked RWMutex")
	}
	o.readers--
}

func (m *RWMutex) TryLock() bool {
	s := cur
	if s == nil {
		return m.real.TryLock()
	}
	o := m.state(s)
	s.point(OpTryLock, o, "trylock")
	if o.held || o.readers > 0 {
		return false
	}
	o.held = true
	return true
}

func (m *RWMutex) TryRLock() bool {
	s := cur
	if s == nil {
		return m.real.TryRLock()
	}
	o := m.state(s)
	s.point(OpTryLock, o, "tryrlock")
	if o.held {
		return false
	}
	o.readers++
	return true
}

func (m *RWMutex) RLocker() Locker { return (*rlocker)(m) }

type rlocker RWMutex

func (r *rlocker) Lock()   { (*RWMutex)(r).RLock() }
func (r *rlocker) Unlock() { (*RWMutex)(r).RUnlock() }

// Once replaces sync.Once.
type Once struct {
	real  rsync.Once
	done  bool
	epoch uint64
}

func (o *Once) Do(f func()) {
	s := cur
	if s == nil {
		o.real.Do(f)
		return
	}
	s.point(OpOnce, nil, "")
	if o.epoch != s.epoch {
		o.epoch = s.epoch
		// a Once that fired before the scheduler existed stays fired: approximate with the flag
	}
	if !o.done {
		o.done = true
		f()
	}
}

// OnceFunc / OnceValue mirror the sync helpers.
func OnceFunc(f func()) func() { var o Once; return func() { o.Do(f) } }

func OnceValue[T any](f func() T) func() T {
	var o Once
	var v T
	return func() T { o.Do(func() { v = f() }); return v }
}

func OnceValues[T1, T2 any](f func() (T1, T2)) func() (T1, T2) {
	var o Once
	var v1 T1
	var v2 T2
	return func() (T1, T2) { o.Do(func() { v1, v2 = f() }); return v1, v2 }
}

// WaitGroup replaces sync.WaitGroup. fox starts no goroutines; under the scheduler Wait on a
// non-zero counter can never be satisfied by an unmanaged goroutine and is reported as a panic.
type WaitGroup struct {
	real rsync.WaitGroup
	n    int
}

func (w *WaitGroup) Add(d int) {
	if cur == nil {
		w.real.Add(d)
		return
	}
	w.n += d
}
func (w *WaitGroup) Done() { w.Add(-1) }
func (w *WaitGroup) Wait() {
	s := cur
	if s == nil {
		w.real.Wait()
		return
	}
	s.point(OpWait, nil, "")
	if w.n > 0 {
		panic("verifsync: WaitGroup.Wait with non-zero counter is not modelled")
	}
}
func (w *WaitGroup) Go(f func()) { w.Add(1); go func() { defer w.Done(); f() }() }

// Cond replaces sync.Cond (pass-through; not modelled under the scheduler).
type Cond struct {
	L    Locker
	real *rsync.Cond
}

func NewCond(l Locker) *Cond { return &Cond{L: l, real: rsync.NewCond(l)} }
func (c *Cond) Wait() {
	if cur != nil {
		panic("verifsync: Cond.Wait is not modelled")
	}
	c.real.Wait()
}
func (c *Cond) Signal()    { c.real.Signal() }
func (c *Cond) Broadcast() { c.real.Broadcast() }

// Map replaces sync.Map (each operation is one atomic step under the scheduler).
type Map struct {
	real rsync.Map
}

func (m *Map) pt() {
	if s := cur; s != nil {
		s.point(OpLoad, nil, "map")
	}
}
func (m *Map) Load(k any) (any, bool)           { m.pt(); return m.real.Load(k) }
func (m *Map) Store(k, v any)                   { m.pt(); m.real.Store(k, v) }
func (m *Map) LoadOrStore(k, v any) (any, bool) { m.pt(); return m.real.LoadOrStore(k, v) }
func (m *Map) LoadAndDelete(k any) (any, bool)  { m.pt(); return m.real.LoadAndDelete(k) }
func (m *Map) Delete(k any)                     { m.pt(); m.real.Delete(k) }
func (m *Map) Swap(k, v any) (any, bool)        { m.pt(); return m.real.Swap(k, v) }
func (m *Map) CompareAndSwap(k, o, n any) bool  { m.pt(); return m.real.CompareAndSwap(k, o, n) }
func (m *Map) CompareAndDelete(k, o any) bool   { m.pt(); return m.real.CompareAndDelete(k, o) }
func (m *Map) Range(f func(k, v any) bool)      { m.pt(); m.real.Range(f) }
func (m *Map) Clear()                           { m.pt(); m.real.Clear() }

// Pool replaces sync.Pool. Under the scheduler it is a deterministic free list: Get returns the
// most recently Put object (LIFO) or, in PoolChoice mode, any pooled object or a fresh New()
// as decided by a data choice point (modelling arbitrary reuse and GC emptying the pool).
type Pool struct {
	New   func() any
	real  rsync.Pool
	items []any
	st    *objState
	epoch uint64
}

func (p *Pool) sync(s *Sched) *objState {
	if p.st == nil || p.epoch != s.epoch {
		p.st = s.newObj()
		p.epoch = s.epoch
		p.items = nil
	}
	return p.st
}

func (p *Pool) Get() any {
	s := cur
	if s == nil {
		// pass-through: the real pool, with New applied here (no lazily written field: Get is concurrent)
		if v := p.real.Get(); v != nil {
			return v
		}
		if p.New != nil {
			return p.New()
		}
		return nil
	}
	o := p.sync(s)
	s.point(OpPoolGet, o, "")
	n := len(p.items)
	if n > 0 {
		idx := n - 1
		if s.PoolChoice && s.exploring && !s.aborted {
			// alternatives: 0 = most recent, 1..n-1 = older ones, n = fresh object
			k := n
			if k > 3 {
				k = 3
			}
			c := s.choose(k+1, true, false)
			if c == k {
				if p.New != nil {
					return p.New()
				}
				return nil
			}
			idx = n - 1 - c
		}
		v := p.items[idx]
		p.items = append(p.items[:idx], p.items[idx+1:]...)
		return v
	}
	if p.New != nil {
		return p.New()
	}
	return nil
}

func (p *Pool) Put(v any) {
	s := cur
	if s == nil {
		p.real.Put(v)
		return
	}
	o := p.sync(s)
	s.point(OpPoolPut, o, "")
	if v == nil {
		return
	}
	p.items = append(p.items, v)
}

// PoolLen reports how many objects are pooled (scheduler mode only; diagnostics).
func (p *Pool) PoolLen() int { return len(p.items) }

// ---------------------------------------------------------------------------------------------
// sync/atomic replacements
// ---------------------------------------------------------------------------------------------

type noCopy struct{}

// Pointer replaces atomic.Pointer[T].
type Pointer[T any] struct {
	_     [0]*T
	_     noCopy
	real  ratomic.Pointer[T]
	st    *objState
	epoch uint64
}

func (p *Pointer[T]) obj(s *Sched) *objState {
	if p.st == nil || p.epoch != s.epoch {
		p.st = s.newObj()
		p.epoch = s.epoch
	}
	return p.st
}

func (p *Pointer[T]) Load() *T {
	if s := cur; s != nil {
		s.point(OpLoad, p.obj(s), "")
	}
	return p.real.Load()
}

func (p *Pointer[T]) Store(v *T) {
	if s := cur; s != nil {
		s.point(OpStore, p.obj(s), "")
	}
	p.real.Store(v)
}

func (p *Pointer[T]) Swap(v *T) *T {
	if s := cur; s != nil {
		s.point(OpSwap, p.obj(s), "")
	}
	return p.real.Swap(v)
}

func (p *Pointer[T]) CompareAndSwap(old, new *T) bool {
	if s := cur; s != nil {
		s.point(OpCAS, p.obj(s), "")
	}
	return p.real.CompareAndSwap(old, new)
}

// Value replaces atomic.Value.
type Value struct {
	real ratomic.Value
}

// aptAt is a scheduling point at an atomic operation on the scalar at address p: the address identifies the object,
// so that a thread re-reading an unchanged value is recognised as busy-waiting like with atomic.Pointer.
func aptAt(k OpKind, p unsafe.Pointer) {
	if s := cur; s != nil {
		if s.addrObjs == nil || s.addrEpoch != s.epoch {
			s.addrObjs, s.addrEpoch = map[unsafe.Pointer]*objState{}, s.epoch
		}
		o := s.addrObjs[p]
		if o == nil {
			o = s.newObj()
			s.addrObjs[p] = o
		}
		s.point(k, o, "atomic")
	}
}

func apt(k OpKind) {
	if s := cur; s != nil {
		s.point(k, nil, "atomic")
	}
}

func (v *Value) Load() any      { aptAt(OpLoad, unsafe.Pointer(v)); return v.real.Load() }
func (v *Value) Store(x any)    { aptAt(OpStore, unsafe.Pointer(v)); v.real.Store(x) }
func (v *Value) Swap(x any) any { aptAt(OpSwap, unsafe.Pointer(v)); return v.real.Swap(x) }
func (v *Value) CompareAndSwap(o, n any) bool {
	aptAt(OpCAS, unsafe.Pointer(v))
	return v.real.CompareAndSwap(o, n)
}

// Bool replaces atomic.Bool.
type Bool struct{ real ratomic.Bool }

func (b *Bool) Load() bool       { aptAt(OpLoad, unsafe.Pointer(b)); return b.real.Load() }
func (b *Bool) Store(v bool)     { aptAt(OpStore, unsafe.Pointer(b)); b.real.Store(v) }
func (b *Bool) Swap(v bool) bool { aptAt(OpSwap, unsafe.Pointer(b)); return b.real.Swap(v) }
func (b *Bool) CompareAndSwap(o, n bool) bool {
	aptAt(OpCAS, unsafe.Pointer(b))
	return b.real.CompareAndSwap(o, n)
}

// Int32 replaces atomic.Int32.
type Int32 struct{ real ratomic.Int32 }

func (x *Int32) Load() int32        { aptAt(OpLoad, unsafe.Pointer(x)); return x.real.Load() }
func (x *Int32) Store(v int32)      { aptAt(OpStore, unsafe.Pointer(x)); x.real.Store(v) }
func (x *Int32) Swap(v int32) int32 { aptAt(OpSwap, unsafe.Pointer(x)); return x.real.Swap(v) }
func (x *Int32) Add(d int32) int32  { aptAt(OpAdd, unsafe.Pointer(x)); return x.real.Add(d) }
func (x *Int32) CompareAndSwap(o, n int32) bool {
	aptAt(OpCAS, unsafe.Pointer(x))
	return x.real.CompareAndSwap(o, n)
}

// Int64 replaces atomic.Int64.
type Int64 struct{ real ratomic.Int64 }

func (x *Int64) Load() int64        { aptAt(OpLoad, unsafe.Pointer(x)); return x.real.Load() }
func (x *Int64) Store(v int64)      { aptAt(OpStore, unsafe.Pointer(x)); x.real.Store(v) }
func (x *Int64) Swap(v int64) int64 { aptAt(OpSwap, unsafe.Pointer(x)); return x.real.Swap(v) }
func (x *Int64) Add(d int64) int64  { aptAt(OpAdd, unsafe.Pointer(x)); return x.real.Add(d) }
func (x *Int64) CompareAndSwap(o, n int64) bool {
	aptAt(OpCAS, unsafe.Pointer(x))
	return x.real.CompareAndSwap(o, n)
}

// Uint32 replaces atomic.Uint32.
type Uint32 struct{ real ratomic.Uint32 }

func (x *Uint32) Load() uint32         { aptAt(OpLoad, unsafe.Pointer(x)); return x.real.Load() }
func (x *Uint32) Store(v uint32)       { aptAt(OpStore, unsafe.Pointer(x)); x.real.Store(v) }
func (x *Uint32) Swap(v uint32) uint32 { aptAt(OpSwap, unsafe.Pointer(x)); return x.real.Swap(v) }
func (x *Uint32) Add(d uint32) uint32  { aptAt(OpAdd, unsafe.Pointer(x)); return x.real.Add(d) }
func (x *Uint32) CompareAndSwap(o, n uint32) bool {
	aptAt(OpCAS, unsafe.Pointer(x))
	return x.real.CompareAndSwap(o, n)
}

// Uint64 replaces atomic.Uint64.
type Uint64 struct{ real ratomic.Uint64 }

func (x *Uint64) Load() uint64         { aptAt(OpLoad, unsafe.Pointer(x)); return x.real.Load() }
func (x *Uint64) Store(v uint64)       { aptAt(OpStore, unsafe.Pointer(x)); x.real.Store(v) }
func (x *Uint64) Swap(v uint64) uint64 { aptAt(OpSwap, unsafe.Pointer(x)); return x.real.Swap(v) }
func (x *Uint64) Add(d uint64) uint64  { aptAt(OpAdd, unsafe.Pointer(x)); return x.real.Add(d) }
func (x *Uint64) CompareAndSwap(o, n uint64) bool {
	aptAt(OpCAS, unsafe.Pointer(x))
	return x.real.CompareAndSwap(o, n)
}

// Uintptr replaces atomic.Uintptr.
type Uintptr struct{ real ratomic.Uintptr }

func (x *Uintptr) Load() uintptr          { aptAt(OpLoad, unsafe.Pointer(x)); return x.real.Load() }
func (x *Uintptr) Store(v uintptr)        { aptAt(OpStore, unsafe.Pointer(x)); x.real.Store(v) }
func (x *Uintptr) Swap(v uintptr) uintptr { aptAt(OpSwap, unsafe.Pointer(x)); return x.real.Swap(v) }
func (x *Uintptr) Add(d uintptr) uintptr  { aptAt(OpAdd, unsafe.Pointer(x)); return x.real.Add(d) }
func (x *Uintptr) CompareAndSwap(o, n uintptr) bool {
	aptAt(OpCAS, unsafe.Pointer(x))
	return x.real.CompareAndSwap(o, n)
}

// Free functions of sync/atomic.
func LoadInt32(p *int32) int32       { aptAt(OpLoad, unsafe.Pointer(p)); return ratomic.LoadInt32(p) }
func LoadInt64(p *int64) int64       { aptAt(OpLoad, unsafe.Pointer(p)); return ratomic.LoadInt64(p) }
func LoadUint32(p *uint32) uint32    { aptAt(OpLoad, unsafe.Pointer(p)); return ratomic.LoadUint32(p) }
func LoadUint64(p *uint64) uint64    { aptAt(OpLoad, unsafe.Pointer(p)); return ratomic.LoadUint64(p) }
func LoadUintptr(p *uintptr) uintptr { aptAt(OpLoad, unsafe.Pointer(p)); return ratomic.LoadUintptr(p) }
func LoadPointer(p *unsafe.Pointer) unsafe.Pointer {
	aptAt(OpLoad, unsafe.Pointer(p))
	return ratomic.LoadPointer(p)
}
func StoreInt32(p *int32, v int32)    { aptAt(OpStore, unsafe.Pointer(p)); ratomic.StoreInt32(p, v) }
func StoreInt64(p *int64, v int64)    { aptAt(OpStore, unsafe.Pointer(p)); ratomic.StoreInt64(p, v) }
func StoreUint32(p *uint32, v uint32) { aptAt(OpStore, unsafe.Pointer(p)); ratomic.StoreUint32(p, v) }
func StoreUint64(p *uint64, v uint64) { aptAt(OpStore, unsafe.Pointer(p)); ratomic.StoreUint64(p, v) }
func StoreUintptr(p *uintptr, v uintptr) {
	aptAt(OpStore, unsafe.Pointer(p))
	ratomic.StoreUintptr(p, v)
}
func StorePointer(p *unsafe.Pointer, v unsafe.Pointer) {
	aptAt(OpStore, unsafe.Pointer(p))
	ratomic.StorePointer(p, v)
}
func AddInt32(p *int32, d int32) int32 {
	aptAt(OpAdd, unsafe.Pointer(p))
	return ratomic.AddInt32(p, d)
}
func AddInt64(p *int64, d int64) int64 {
	aptAt(OpAdd, unsafe.Pointer(p))
	return ratomic.AddInt64(p, d)
}
func AddUint32(p *uint32, d uint32) uint32 {
	aptAt(OpAdd, unsafe.Pointer(p))
	return ratomic.AddUint32(p, d)
}
func AddUint64(p *uint64, d uint64) uint64 {
	aptAt(OpAdd, unsafe.Pointer(p))
	return ratomic.AddUint64(p, d)
}
func AddUintptr(p *uintptr, d uintptr) uintptr {
	aptAt(OpAdd, unsafe.Pointer(p))
	return ratomic.AddUintptr(p, d)
}
func SwapInt32(p *int32, v int32) int32 {
	aptAt(OpSwap, unsafe.Pointer(p))
	return ratomic.SwapInt32(p, v)
}
func SwapInt64(p *int64, v int64) int64 {
	aptAt(OpSwap, unsafe.Pointer(p))
	return ratomic.SwapInt64(p, v)
}
func SwapUint32(p *uint32, v uint32) uint32 {
	aptAt(OpSwap, unsafe.Pointer(p))
	return ratomic.SwapUint32(p, v)
}
func SwapUint64(p *uint64, v uint64) uint64 {
	aptAt(OpSwap, unsafe.Pointer(p))
	return ratomic.SwapUint64(p, v)
}
func SwapUintptr(p *uintptr, v uintptr) uintptr {
	aptAt(OpSwap, unsafe.Pointer(p))
	return ratomic.SwapUintptr(p, v)
}
func SwapPointer(p *unsafe.Pointer, v unsafe.Pointer) unsafe.Pointer {
	apt(OpSwap)
	return ratomic.SwapPointer(p, v)
}
func CompareAndSwapInt32(p *int32, o, n int32) bool {
	apt(OpCAS)
	return ratomic.CompareAndSwapInt32(p, o, n)
}
func CompareAndSwapInt64(p *int64, o, n int64) bool {
	apt(OpCAS)
	return ratomic.CompareAndSwapInt64(p, o, n)
}
func CompareAndSwapUint32(p *uint32, o, n uint32) bool {
	apt(OpCAS)
	return ratomic.CompareAndSwapUint32(p, o, n)
}
func CompareAndSwapUint64(p *uint64, o, n uint64) bool {
	apt(OpCAS)
	return ratomic.CompareAndSwapUint64(p, o, n)
}
func CompareAndSwapUintptr(p *uintptr, o, n uintptr) bool {
	apt(OpCAS)
	return ratomic.CompareAndSwapUintptr(p, o, n)
}
func CompareAndSwapPointer(p *unsafe.Pointer, o, n unsafe.Pointer) bool {
	apt(OpCAS)
	return ratomic.CompareAndSwapPointer(p, o, n)
}
